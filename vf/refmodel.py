"""Reference model for text references (C17): scanner, field grammar, resolution, translation.

Texts are Python str (well-formed UTF-8 only); positions are code-point offsets.
"""
import re

GRAMMEMS = ['UNKN', 'NOUN', 'NPRO', 'INFN', 'VERB', 'ADJF', 'ADJS', 'PRTF', 'PRTS', 'ADVB', 'GRND', 'COMP', 'PRED',
            'NUMR', 'CONJ', 'INTJ', 'PRCL', 'PREP', 'PNCT', 'pres', 'past', 'futr', '1per', '2per', '3per',
            'sing', 'plur', 'masc', 'femn', 'neut', 'nomn', 'gent', 'datv', 'ablt', 'accs', 'loct']
GRAM_INDEX = {g: i for i, g in enumerate(GRAMMEMS)}
WS = ' \t\n\r\x0b\x0c'


def morph(tags):
    """list of tag strings -> canonical tuple of grammems (enum order), UNKN and unknown tags dropped"""
    out = set()
    for t in tags:
        t = t.strip(WS)
        if t in GRAM_INDEX and t != 'UNKN':
            out.add(t)
    return tuple(sorted(out, key=lambda g: GRAM_INDEX[g]))


def morph_str(form):
    return ','.join(form)


class Ref:
    __slots__ = ('kind', 'entity', 'form', 'offset', 'nominal', 'start', 'finish', 'resolved')

    def __init__(self, kind):
        self.kind = kind
        self.entity = self.form = self.offset = self.nominal = None
        self.start = self.finish = 0
        self.resolved = ''

    def to_string(self):
        if self.kind == 'entity':
            return '@{' + self.entity + '|' + morph_str(self.form) + '}'
        return '@{' + str(self.offset) + '|' + self.nominal + '}'


def is_ascii_alpha(ch):
    return ('a' <= ch <= 'z') or ('A' <= ch <= 'Z')


def parse_ref(s):
    """s: candidate text '@{...}'. Returns Ref, None (invalid) or 'unspecified' (input class the documented forms do
    not cover: empty trailing legacy field)."""
    if len(s.encode('utf-8')) <= 3 or not s.startswith('@{') or not s.endswith('}'):
        return None
    tokens = s[2:-1].split('|')
    if len(tokens) < 2 or len(tokens) > 4:
        return None
    first = tokens[0]
    if first == '':
        return None
    if is_ascii_alpha(first[0]):
        if len(tokens) == 2:
            tags = tokens[1].split(',')
        else:
            tags = tokens[1:]
            if tags[-1] == '':
                form = morph(tags[:-1])
                # legacy form with an empty trailing field: must not fault; treated as "no numeric suffix"
                if not form:
                    return None
                r = Ref('entity')
                r.entity, r.form = first, form
                return r
            if tags[-1][0].isdigit() and tags[-1][0].isascii():
                tags = tags[:-1]
        form = morph(tags)
        if not form:
            return None
        r = Ref('entity')
        r.entity, r.form = first, form
        return r
    if re.fullmatch(r'-?[0-9]+', first) and len(tokens) == 2:
        val = int(first)
        if val < -32768 or val > 32767:
            return None
        r = Ref('collab')
        r.offset, r.nominal = val, tokens[1]
        return r
    return None


def _match_close(text, open_idx):
    depth = 0
    for j in range(open_idx, len(text)):
        if text[j] == '{':
            depth += 1
        elif text[j] == '}':
            depth -= 1
        if depth == 0:
            return j
    return None


def scan(text, resume_inside_invalid=False):
    """left-to-right scan for '@{' ... matching '}' candidates; returns list of valid Ref with positions.

    resume_inside_invalid=False: an invalid candidate is skipped as a whole and an unmatched '@{' ends the scan
    resume_inside_invalid=True: after an invalid/unmatched candidate the scan resumes right after its '@{'
    """
    refs = []
    pos = 0
    n = len(text)
    while pos < n:
        i = text.find('@{', pos)
        if i < 0:
            break
        j = _match_close(text, i + 1)
        if j is None:
            if resume_inside_invalid:
                pos = i + 2
                continue
            break
        r = parse_ref(text[i:j + 1])
        if r is None:
            pos = i + 2 if resume_inside_invalid else j + 1
            continue
        r.start, r.finish = i, j + 1
        refs.append(r)
        pos = j + 1
    return refs


def extract(text):
    """returns (refs, specified): specified=False when the two admissible scanning policies disagree (nested or
    unbalanced markers), in which case the expected reference list is not defined by the property"""
    a = scan(text, False)
    b = scan(text, True)
    same = [(r.start, r.finish) for r in a] == [(r.start, r.finish) for r in b]
    return a, same


# ------------------------------------------------------------------------------------------------
# term context model (with the driver's tagging text processor)
# ------------------------------------------------------------------------------------------------

class Term:
    def __init__(self, raw='', cache=''):
        self.raw = raw
        self.cache = cache
        self.manual = {}      # form tuple -> text

    def str(self):
        return self.cache if self.cache != '' else self.raw

    def get_form(self, form, tagging=True):
        if form in self.manual:
            return self.manual[form]
        if not form:
            form = ('sing', 'nomn')
            if form in self.manual:
                return self.manual[form]
        target = self.str()
        if not tagging:
            return target
        return '' if target == '' else target + '#' + morph_str(form)


def empty_check(s):
    return s if s != '' else '!Empty reference!'


def resolve(text, ctx, tagging=True):
    """returns (resolved text, refs with resolved text and positions in the resolved text, specified)"""
    refs, specified = extract(text)
    for r in refs:
        if r.kind == 'entity':
            term = ctx.get(r.entity)
            if term is None:
                r.resolved = "!Cannot find entity: '" + r.entity + "'!"
            else:
                res = term.get_form(r.form, tagging)
                r.resolved = empty_check(res if res != '' else term.str())
    for idx, r in enumerate(refs):
        if r.kind == 'collab':
            if r.nominal == '':
                r.resolved = '!Empty reference!'
                continue
            master = None
            if r.offset != 0:
                cnt = abs(r.offset)
                step = 1 if r.offset > 0 else -1
                k = idx + step
                while 0 <= k < len(refs):
                    if refs[k].kind == 'entity':
                        cnt -= 1
                        if cnt == 0:
                            master = refs[k]
                            break
                    k += step
            if master is None:
                r.resolved = "!Invalid offset for " + r.nominal + ": '" + str(r.offset) + "'!"
            else:
                r.resolved = empty_check((r.nominal + '~' + master.resolved) if tagging else r.nominal)
    out = []
    cur = 0
    outlen = 0
    for r in refs:
        out.append(text[cur:r.start])
        outlen += r.start - cur
        cur = r.finish
        out.append(r.resolved)
        r.start, r.finish = outlen, outlen + len(r.resolved)
        outlen += len(r.resolved)
    out.append(text[cur:])
    return ''.join(out), refs, specified


def canonical(text):
    """original text with every valid reference in canonical spelling"""
    refs, specified = extract(text)
    out = []
    cur = 0
    for r in refs:
        out.append(text[cur:r.start])
        out.append(r.to_string())
        cur = r.finish
    out.append(text[cur:])
    return ''.join(out), specified


def translate_raw(text, mapping):
    """ManagedText::TranslateRaw model: only entity references whose entity is renamed are respelled"""
    refs, specified = extract(text)
    out = []
    cur = 0
    for r in refs:
        out.append(text[cur:r.start])
        if r.kind == 'entity' and r.entity in mapping and mapping[r.entity] != r.entity:
            r2 = Ref('entity')
            r2.entity, r2.form = mapping[r.entity], r.form
            out.append(r2.to_string())
        else:
            out.append(text[r.start:r.finish])
        cur = r.finish
    out.append(text[cur:])
    return ''.join(out), specified


def referals(text):
    refs, specified = extract(text)
    return sorted({r.entity for r in refs if r.kind == 'entity'}), specified
