"""C02 — type soundness: accepted expressions evaluate safely to the reported type."""
from . import core
from . import evalcommon as ec
from . import rsgen as rg
from . import rstypes as rt
from . import sdmodel as sm

PROP = 'C02'
RULE = ('the C01 workload plus mutation pressure: near-miss mutants of well-typed expressions (off-by-one projection/'
        'filter indices, wrong tuple arity, element where a set is expected and vice versa, integers in nominal '
        'positions, empty set everywhere, logic-typed and function names in set positions, wrong call arity, '
        'undeclared/shadowed locals) and boundary integer arithmetic; every expression the REAL checker accepts is '
        'evaluated on the ASan+UBSan+_GLIBCXX_ASSERTIONS build under data generated from the typifications (incl. empty '
        'base sets). Monitors: sanitizer/assertion death, escaped exception, unknownError 0x8A00 in the log, truth '
        'value iff LOGIC, structural conformance of the value to the reported typification (Python, all elements) and '
        'the library CheckCompatible. Distinct = hash of (context, text); non-trivial = accepted by the real checker '
        'and >= 4 nodes.')
ASSUMPTIONS = [
    'evaluable forms are logic/set expressions and X:==expr with a plain global; function definitions, bare '
    'declarations and structure definitions are exercised for safety only (their unknownError is not judged)',
    'data contexts are generated from the context typifications, hence compatible by construction',
]
MIN_JUDGED = {'quick': 3000, 'thorough': 60000}
NSH = 32


def shards(tier, seed):
    return [{'i': i} for i in range(NSH)]


def boundary_cases():
    """integer arithmetic at the int32 boundary and other fixed hostile inputs, over a tiny context"""
    from . import rstyped as ty
    ctx = ty.Ctx()
    ctx.types = {'X1': ty.S(ty.E('X1')), 'C1': ty.S(ty.E('C1')), 'S1': ty.S(ty.T(ty.E('X1'), ty.E('X1')))}
    ctx.traits = {'X1': 'nominal', 'C1': 'integral'}
    ctx.vclass = {'X1': 'value', 'C1': 'value', 'S1': 'value'}
    ctx.data = {'X1': frozenset([1, 2, 3, 4, 5, 6, 7, 8]), 'C1': frozenset([2147483647, 1, 0]), 'S1': frozenset([(1, 2), (2, 3)])}
    texts = ['2147483647+1', '2147483647*2', '0-2147483647-2', '2147483647*2147483647', 'card(X1)*2147483647',
             'D{x∈C1 | x+x>0}', 'I{x*x | x:∈C1}', 'debool({2147483647})+debool({1})', '46341*46341', '65536*65536',
             'card(ℬ(X1))', 'card(ℬ(X1)×ℬ(X1))', 'card(ℬ(X1)×ℬ(X1)×ℬ(X1)×ℬ(X1))', 'red(ℬ(ℬ(X1)))=X1',
             'I{x | a:=ℬ(X1); x:∈D{b∈a | ∃c∈a (card(c)>7)}}', 'D{x∈ℬ(X1) | ∃y∈ℬ(X1) (card(y)>7 & x⊆y)}',
             '∀x∈ℬ(X1)×ℬ(X1) pr1(x)⊆pr1(x)', 'card(D{x∈ℬ(X1)×ℬ(X1) | ∀y∈ℬ(X1)×ℬ(X1) (pr1(y)⊆pr1(x) ⇒ pr2(x)=pr2(x))})',
             'R{x:=0 | x<200000 | x+1}', 'R{x:=0 | x<5 | x+1}', '∅', 'debool(∅)', 'pr1(debool(S1))', 'Pr1,1(S1)', 'Pr2,1,2(S1)',
             'Fi1[∅](S1)', 'Fi1,2[X1](S1)', 'Fi2,1[S1](S1)', 'bool(∅)', '{∅}', '(∅,∅)', 'ℬ(∅)', '∅×∅', 'X1×∅', 'card(X1×∅)']
    # recursions whose variable starts with a wildcard type and is refined by the step (the condition must be re-checked
    # against the refined type; if it is not, evaluation reads elements as sets / tuples)
    from . import p03
    ctx.types['S2'] = ty.S(ty.S(ty.E('X1')))
    ctx.vclass['S2'] = 'value'
    ctx.data['S2'] = frozenset([frozenset([1, 2]), frozenset([3])])
    for label, tree in p03.refine_trees():
        if label.startswith('refine'):
            texts.append(rg.render(rg.map_locals(tree, lambda x: x), 'MATH')[0])
    # templated functions sharing a radical (an earlier argument typed from the empty set), property / value functions over Z
    p03.fixed_functions(ctx)
    for label, tree in p03.call_trees():
        if not label.startswith('vcall-define'):
            texts.append(rg.render(rg.map_locals(tree, lambda x: x), 'MATH')[0])
    # filters whose argument has the empty-set typification: the parameters are not type-checked, evaluation must not touch them
    for arg in ('∅', 'debool({∅})', 'red(∅)', 'Pr1(∅)', 'S1\\S1', 'D{x∈∅ | 1=1}', 'red({∅})'):
        for par in ('pr1(X1)', '1', 'card(X1)', 'X1', 'S1', '(X1,X1)', 'debool(X1)', '∅', 'pr1(debool(X1))'):
            texts.append(f'Fi1[{par}]({arg})')
            texts.append(f'Fi1,2[{par}]({arg})')
            texts.append(f'Fi2,1[{par},{par}]({arg})')
    meta_ctx = {'types': ctx.types, 'funcs': ctx.funcs, 'traits': ctx.traits, 'vclass': ctx.vclass, 'bodies': ctx.bodies,
                'data': {k: sm.enum_spec(v) for k, v in ctx.data.items()}}
    cases = []
    for t in texts:
        ops = [{'op': 'rs.ctx', 'ctx': 'c', 'spec': ctx.spec()}, {'op': 'rs.eval', 'ctx': 'c', 'text': t, 'syntax': 'MATH'}]
        items = [{'tree': None, 'base': True, 'variant': 'boundary', 'mut': 'boundary', 'text': t, 'syntax': 'MATH'}]
        cases.append(core.case(ops, kind='evalctx', ctx=meta_ctx, items=items))
    return cases


def judge(res, cs, cr):
    items = cs['meta']['items']
    if cr.death is not None and cr.death['kind'] != 'harness':
        k = cr.death['op_index']
        res.count('deaths')
        res.violation(f"{PROP}/fault/{cr.death['key']}", (f"input {cs['ops'][k].get('text')!r}\n" if k >= 1 else '') + cr.death['text'][-2500:],
                      ec.single_replay_case(cs, cs['ops'][k], items[k - 1]) if k >= 1 else cs)
    elif cr.death is not None:
        res.harness_error(cr.death['text'])
        return
    if cr.hang:
        res.count('inconclusive')   # bounded but expensive evaluation (iteration limits are documented): not a verdict
    for item, op, ev in zip(items, cs['ops'][1:], cr.events[1:]):
        if 'harness_error' in ev:
            res.harness_error(ev['harness_error'])
            continue
        text = item['text']
        tree = item['tree']
        single = ec.single_replay_case(cs, op, item)
        if 'exc' in ev:
            res.count('escaped_exceptions')
            res.violation(f"{PROP}/exception/{ev['exc']['type']}", f"{text!r}: {ev['exc']}", single)
            continue
        res.cover('mutation:' + item['mut'])
        if not ev.get('type_ok'):
            res.count('rejected_by_checker')
            continue
        res.count('accepted_by_checker')
        bad = None
        evaluable = tree is None or ec.is_evaluable(tree)
        eids = [e['eid'] for e in ev['errors'] if e['crit']]
        if ec.UNKNOWN_ERROR in eids and evaluable:
            bad = ('unknown-error', 'evaluation of an accepted expression ends with the unknown evaluation error 0x8A00')
        if not ev.get('has') and not eids and evaluable:
            bad = ('fails-silently', 'evaluation fails without any critical error')
        if ev.get('has'):
            t = ec.parse_type(ev['type'])
            val = ec.lib_value(ev)
            if val[0] == 'value':
                if not ec.conforms(val[1], t):
                    bad = ('value-type-mismatch', f"value {val[1] if isinstance(val[1], bool) else sm.show(val[1])} does not have the structure of the reported type {ev['type']}")
                elif ev.get('lib_compatible') is False:
                    bad = ('check-compatible', f"CheckCompatible(value, {ev['type']}) is false")
            res.count('values_checked')
        if bad:
            res.violation(f'{PROP}/soundness/{bad[0]}', f"{item['syntax']} {text!r} [{item['mut']}]: {bad[1]}; errors {[hex(e) for e in eids]}", single)
        res.count('judged', 3)
        n = rg.count_nodes(tree) if tree is not None else 5
        res.judged(repr(sorted(cs['meta']['ctx']['types'].items(), key=repr)) + text, nontrivial=n >= 4)
        res.counters['judged'] -= 1
        if ev.get('has') and n >= 6:
            res.sample({'text': text, 'type': ev['type'], 'value': ev.get('str', ev.get('bool')), 'mutation': item['mut']}, limit=1)


def run_shard(desc, env):
    res = core.ShardResult()
    rnd = env.rng('c02', desc['i'])
    nctx, per = (14, 18) if env.tier == 'quick' else (260, 20)
    cases = ec.build_cases(rnd, env.tier, nctx, per, big=(env.tier != 'quick'), mutants=0.55)
    if desc['i'] == 0:
        cases = boundary_cases() + ec.inlining_cases() + cases
    for cs, cr in env.execute(cases, chunk=12):
        judge(res, cs, cr)
    return res


def replay(cs, env):
    res = core.ShardResult()
    for c, cr in env.execute([cs]):
        judge(res, c, cr)
    return res
