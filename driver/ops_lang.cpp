// C17 (and C04/C08 parts): Reference, RefsManager, ManagedText, LexicalTerm
#include "drv.h"

#include "ccl/lang/Reference.h"
#include "ccl/lang/RefsManager.h"
#include "ccl/lang/ManagedText.h"
#include "ccl/lang/LexicalTerm.h"
#include "ccl/lang/TextEnvironment.h"

#include <map>
#include <memory>

using drv::json;
using namespace ccl::lang;  // NOLINT
using ccl::StrRange;

namespace {

// Test double that makes inflection observable: Inflect(t, form) = t + "#" + tags (empty stays empty),
// InflectDependant(dep, main) = dep + "~" + main
class TaggingProcessor : public TextProcessor {
public:
  [[nodiscard]] std::string Inflect(const std::string& target, const Morphology& form) const override {
    if (target.empty()) {
      return {};
    }
    return target + "#" + form.ToString();
  }
  [[nodiscard]] std::string InflectDependant(const std::string& dependant, const std::string& main) const override {
    return dependant + "~" + main;
  }
};

class MapContext : public EntityTermContext {
public:
  std::map<std::string, LexicalTerm> terms;

  [[nodiscard]] const LexicalTerm* At(const std::string& entity) const override {
    const auto it = terms.find(entity);
    return it == terms.end() ? nullptr : &it->second;
  }
  [[nodiscard]] bool Contains(const std::string& entity) const override { return terms.contains(entity); }
};

std::map<std::string, MapContext>& Contexts() {
  static std::map<std::string, MapContext> ctx;
  return ctx;
}

struct ManagerBox {
  std::unique_ptr<RefsManager> mgr;
};
std::map<std::string, ManagerBox>& Managers() {
  static std::map<std::string, ManagerBox> mgrs;
  return mgrs;
}
std::map<std::string, ManagedText>& Texts() {
  static std::map<std::string, ManagedText> texts;
  return texts;
}

json RefJ(const Reference& ref) {
  json out = json::object();
  out["type"] = ref.IsEntity() ? "entity" : (ref.IsCollaboration() ? "collab" : "invalid");
  out["pos"] = json::array({ ref.position.start, ref.position.finish });
  out["str"] = drv::PutBytes(ref.ToString());
  out["resolved"] = drv::PutBytes(ref.resolvedText);
  if (ref.IsEntity()) {
    out["entity"] = drv::PutBytes(ref.GetEntity());
    out["form"] = ref.GetForm().ToString();
  } else if (ref.IsCollaboration()) {
    out["offset"] = ref.GetOffset();
    out["nominal"] = drv::PutBytes(ref.GetNominal());
  }
  return out;
}

json RefsJ(const std::vector<Reference>& refs) {
  json out = json::array();
  for (const auto& r : refs) {
    out.push_back(RefJ(r));
  }
  return out;
}

ccl::StrSubstitutes MapOf(const json& j) {
  ccl::StrSubstitutes out;
  for (const auto& [k, v] : j.items()) {
    out[k] = v.get<std::string>();
  }
  return out;
}

}  // namespace

DRV_OP(OpEnvProcessor, "env.processor") {
  const auto mode = a.at("mode").get<std::string>();
  if (mode == "tagging") {
    TextEnvironment::SetProcessor(std::make_unique<TaggingProcessor>());
  } else {
    TextEnvironment::SetProcessor(std::make_unique<TextProcessor>());
  }
  TextEnvironment::Instance().skipResolving = a.value("skip", false);
  return json::object();
}

DRV_OP(OpRefExtract, "ref.extract") {
  const auto text = drv::GetBytes(a, "text");
  return json{ {"refs", RefsJ(Reference::ExtractAll(text))} };
}

DRV_OP(OpRefParse, "ref.parse") {
  const auto text = drv::GetBytes(a, "text");
  return json{ {"ref", RefJ(Reference::Parse(text))} };
}

// ---- term contexts
DRV_OP(OpCtxNew, "ctx.new") {
  const auto name = a.at("ctx").get<std::string>();
  Contexts().erase(name);
  auto& ctx = Contexts()[name];
  if (a.contains("terms")) {
    for (const auto& t : a["terms"]) {
      const auto alias = t.at("name").get<std::string>();
      if (t.contains("resolved")) {
        ctx.terms.emplace(alias, LexicalTerm{ t.at("raw").get<std::string>(), t["resolved"].get<std::string>() });
      } else {
        ctx.terms.emplace(alias, LexicalTerm{ t.at("raw").get<std::string>() });
      }
    }
  }
  return json::object();
}

static json TermJ(const LexicalTerm& term, const json& forms) {
  json out = json::object();
  out["nominal"] = drv::PutBytes(term.Nominal());
  out["raw"] = drv::PutBytes(term.Text().Raw());
  out["str"] = drv::PutBytes(term.Text().Str());
  json fo = json::object();
  for (const auto& f : forms) {
    const auto tags = f.get<std::string>();
    fo[tags] = drv::PutBytes(term.GetForm(Morphology{ tags }));
  }
  out["forms"] = fo;
  json manual = json::object();
  for (const auto& [form, text] : term.GetAllManual()) {
    manual[form.ToString()] = drv::PutBytes(text);
  }
  out["manual"] = manual;
  return out;
}

DRV_OP(OpCtxTerm, "ctx.term") {
  auto& ctx = Contexts().at(a.at("ctx").get<std::string>());
  const auto alias = a.at("name").get<std::string>();
  const auto kind = a.at("k").get<std::string>();
  if (kind == "settext") {
    ctx.terms[alias].SetText(drv::GetBytes(a, "raw"), ctx);
  } else if (kind == "setform") {
    ctx.terms[alias].SetForm(Morphology{ a.at("tags").get<std::string>() }, a.at("text").get<std::string>());
  } else if (kind == "update") {
    if (ctx.terms.contains(alias)) {
      ctx.terms[alias].UpdateFrom(ctx);
    }
  } else if (kind == "erase") {
    ctx.terms.erase(alias);
  } else if (kind == "translate") {
    const auto subst = MapOf(a.at("map"));
    if (ctx.terms.contains(alias)) {
      ctx.terms[alias].TranslateRefs(ccl::CreateTranslator(subst), ctx);
    }
  } else if (kind != "get") {
    return json{ {"harness_error", "bad ctx.term kind"} };
  }
  json out = json::object();
  if (ctx.terms.contains(alias)) {
    out["term"] = TermJ(ctx.terms.at(alias), a.value("forms", json::array()));
  }
  return out;
}

// ---- RefsManager sessions
DRV_OP(OpRefsResolve, "refs.resolve") {
  auto& ctx = Contexts().at(a.at("ctx").get<std::string>());
  auto& box = Managers()[a.at("m").get<std::string>()];
  box.mgr = std::make_unique<RefsManager>(ctx);
  const auto text = drv::GetBytes(a, "text");
  json out = json::object();
  const auto resolved = box.mgr->Resolve(text);
  out["resolved"] = drv::PutBytes(resolved);
  out["refs"] = RefsJ(box.mgr->get());
  out["output"] = drv::PutBytes(box.mgr->OutputRefs(resolved));
  return out;
}

DRV_OP(OpRefsStep, "refs.step") {
  auto& box = Managers().at(a.at("m").get<std::string>());
  auto& mgr = *box.mgr;
  const auto kind = a.at("k").get<std::string>();
  json out = json::object();
  if (kind == "insert") {
    auto ref = Reference::Parse(drv::GetBytes(a, "ref"));
    out["valid"] = ref.IsValid();
    if (ref.IsValid()) {
      const auto* res = mgr.Insert(std::move(ref), a.at("at").get<int32_t>());
      out["inserted"] = res != nullptr;
      if (res != nullptr) {
        out["ref"] = RefJ(*res);
      }
    }
  } else if (kind == "erase") {
    const auto& r = a.at("range");
    const auto res = mgr.EraseIn(StrRange{ r.at(0).get<int32_t>(), r.at(1).get<int32_t>() }, a.value("expand", false));
    out["erased"] = res.has_value() ? json::array({ res->start, res->finish }) : json{};
  } else if (kind == "firstin") {
    const auto& r = a.at("range");
    const auto* res = mgr.FirstIn(StrRange{ r.at(0).get<int32_t>(), r.at(1).get<int32_t>() });
    out["first"] = res == nullptr ? json{} : RefJ(*res);
  } else if (kind == "output") {
    const auto norm = drv::GetBytes(a, "norm");
    if (a.contains("range")) {
      const auto& r = a["range"];
      out["output"] = drv::PutBytes(mgr.OutputRefs(norm, StrRange{ r.at(0).get<int32_t>(), r.at(1).get<int32_t>() }));
    } else {
      out["output"] = drv::PutBytes(mgr.OutputRefs(norm));
    }
  } else if (kind == "clear") {
    mgr.clear();
  } else if (kind == "resolve") {
    // the SAME manager resolves again (its context object may have changed meanwhile)
    const auto text = drv::GetBytes(a, "text");
    const auto resolved = mgr.Resolve(text);
    out["resolved"] = drv::PutBytes(resolved);
    out["output"] = drv::PutBytes(mgr.OutputRefs(resolved));
  } else {
    return json{ {"harness_error", "bad refs.step kind"} };
  }
  out["refs"] = RefsJ(mgr.get());
  return out;
}

// ---- ManagedText
DRV_OP(OpMtext, "mtext.step") {
  const auto name = a.at("t").get<std::string>();
  const auto kind = a.at("k").get<std::string>();
  auto& text = Texts()[name];
  if (kind == "init") {
    text = ManagedText{};
    text.InitFrom(drv::GetBytes(a, "raw"), Contexts().at(a.at("ctx").get<std::string>()));
  } else if (kind == "ctor") {
    text = a.contains("cache") ? ManagedText{ drv::GetBytes(a, "raw"), drv::GetBytes(a, "cache") } : ManagedText{ drv::GetBytes(a, "raw") };
  } else if (kind == "setraw") {
    text.SetRaw(drv::GetBytes(a, "raw"));
  } else if (kind == "update") {
    text.UpdateFrom(Contexts().at(a.at("ctx").get<std::string>()));
  } else if (kind == "translateraw") {
    const auto subst = MapOf(a.at("map"));
    text.TranslateRaw(ccl::CreateTranslator(subst));
  } else if (kind == "translaterefs") {
    const auto subst = MapOf(a.at("map"));
    text.TranslateRefs(ccl::CreateTranslator(subst), Contexts().at(a.at("ctx").get<std::string>()));
  } else if (kind != "get") {
    return json{ {"harness_error", "bad mtext.step kind"} };
  }
  json out = json::object();
  out["raw"] = drv::PutBytes(text.Raw());
  out["str"] = drv::PutBytes(text.Str());
  out["empty"] = text.empty();
  std::vector<std::string> refs;
  for (const auto& r : text.Referals()) {
    refs.push_back(r);
  }
  std::sort(refs.begin(), refs.end());
  json rj = json::array();
  for (const auto& r : refs) {
    rj.push_back(drv::PutBytes(r));
  }
  out["referals"] = rj;
  return out;
}
