"""C11 — a model never shows a calculated value that is stale w.r.t. current data."""
from . import core
from . import formgen as fg
from . import sdmodel as sm
from . import evalcommon as ec

PROP = 'C11'
RULE = ('seeded histories of 10-50 RSModel operations over dependency shapes chain / diamond / fan-out / structure-in-the-'
        'middle: AddBasicElement, SetBasicText (incl. same-size replacement with different keys, non-contiguous keys), '
        'SetStructureData, ResetDataFor, SetExpressionFor, Erase, Calculate, RecalculateAll, Emplace, InsertCopy; after '
        'EVERY operation the live model is compared with a RECONSTRUCTION (fresh RSModel, same constituents in list order, '
        'same base interpretations with the same keys, same structure data, then RecalculateAll): every constituent that '
        'the live model reports as calculated with a value must show exactly the reconstructed value, and live structure '
        'data must be acceptable for the current base interpretation. Distinct = hash of the script; non-trivial = a data '
        'or definition edit happened after at least one successful calculation.')
ASSUMPTIONS = ['the reconstruction is performed by real code (RSModel from scratch); values are compared after canonicalisation in Python',
               'alias edits are not part of the quantified histories']
MIN_JUDGED = {'quick': 3000, 'thorough': 60000}
NSH = 32

SHAPES = {
    'chain': ['$[0]\\$[1]', 'D{x∈$[3] | x=x}', '$[4]∪$[4]', 'card($[5])'],
    'diamond': ['$[0]∪$[1]', '$[3]\\$[1]', '$[3]∩$[0]', '$[4]∪$[5]', 'card($[6])>0'],
    'fanout': ['$[0]', 'ℬ($[3])', '$[3]×$[3]', 'card($[3])', '{$[3]}', 'Pr1($[2])'],
    'structmid': ['Pr1($[2])', 'Pr2($[2])', '$[3]∪$[4]', 'D{x∈$[0] | x∈$[5]}', 'card($[2])', '$[0]\\$[5]'],
    # callers reach the edited data only through the body of a function / predicate
    'funcs': [('function', '[a∈ℬ($[0])] a∩Pr1($[2])'), '$[3][$[0]]', ('function', '[a∈ℬ($[0])] a×$[1]'), '$[5][$[0]]', 'card($[4])',
              ('predicate', '[a∈ℬ($[0])] a⊆Pr1($[2])'), ('axiom', '$[8][$[0]]'), ('function', '[a∈ℬ($[0])] $[3][a]∪a'), '$[10][$[0]]'],
    # a constant set with structures typed over it (list order: X1 X2 C1 S1 S2 S3 S4 then terms - basic kinds are grouped)
    'consts': [('structure', 'ℬ($[2])'), ('structure', 'ℬ($[0]×$[2])'), ('structure', 'ℬℬ($[2])'), '$[4]\\$[2]', 'Pr2($[5])\\$[2]', 'card($[4])', 'red($[6])'],
}
BASES = {'consts': [0, 1, 2, 2, 2]}
STRUCTS = {'consts': [3, 4, 4, 5, 5, 6, 0]}
DEFS = ['$[%d]∪$[%d]', '$[%d]\\$[%d]', '$[%d]∩$[%d]', 'Pr1($[%d])', 'Pr2($[%d])', 'D{x∈$[%d] | x∈$[%d]}', 'card($[%d])', 'card($[%d])>1', '$[%d]=$[%d]',
        'ℬ($[%d])', '{$[%d]}', '$[%d]×$[%d]', '$[%d]', 'debool($[%d])', 'X77∪$[%d]', '$[%d]∪', '', 'red({$[%d]})', 'D{x∈$[%d] | ∃y∈$[%d] (x,y)∈$[%d]}',
        'I{(a,b) | a:∈$[%d]; b:∈$[%d]; (a,b)∈$[%d]}', '∀x∈$[%d] x∈$[%d]', 'Fi1[$[%d]]($[%d])']


def shards(tier, seed):
    return [{'i': i} for i in range(NSH)]


def history(rnd, hist_id, length):
    m = 'm'
    ops = [{'op': 'env.processor', 'mode': 'default'}, {'op': 'form.seed', 'seed': hist_id}, {'op': 'model.op', 'm': m, 'k': 'new'}]
    ops.append({'op': 'model.op', 'm': m, 'k': 'emplace', 'type': 'basic'})
    ops.append({'op': 'model.op', 'm': m, 'k': 'emplace', 'type': 'basic'})
    shape = rnd.choice(sorted(SHAPES))
    if shape == 'consts':
        ops.append({'op': 'model.op', 'm': m, 'k': 'emplace', 'type': 'constant'})
    ops.append({'op': 'model.op', 'm': m, 'k': 'emplace', 'type': 'structure', 'def': rnd.choice(['ℬ($[0]×$[0])', 'ℬ($[0]×$[1])', 'ℬ($[1]×ℬ($[0]))'])})
    for d in SHAPES[shape]:
        if isinstance(d, tuple):
            ctype, d = d
        else:
            ctype = 'axiom' if ('>' in d or '=' in d.replace('x=x', '')) and not d.startswith('D{') else 'term'
        ops.append({'op': 'model.op', 'm': m, 'k': 'emplace', 'type': ctype, 'def': d})
    bases = BASES.get(shape, [0, 1, 2])
    structs = STRUCTS.get(shape, [2, 2, 2, 0, 5])
    for nm in range(rnd.randint(0, 4) + (3 if shape == 'consts' else 0)):
        ops.append({'op': 'model.op', 'm': m, 'k': 'addelem', 'uid': {'idx': rnd.choice(bases)}, 'name': f'el{nm}'})
    plan = [None] * len(ops)
    if shape != 'consts' and rnd.random() < 0.3:
        # an edit that changes nothing but an index of a projection / filter (same tree shape, same operands)
        sidx = 2
        first, second = rnd.choice([('Pr1($[%d])', 'Pr2($[%d])'), ('Pr2($[%d])', 'Pr1($[%d])'), ('D{ξ∈$[%d] | pr1(ξ)=pr1(ξ)}', 'D{ξ∈$[%d] | pr2(ξ)=pr1(ξ)}'),
                                    ('Pr1,2($[%d])', 'Pr2,1($[%d])'), ('Fi1[$[0]]($[%d])', 'Fi2[$[0]]($[%d])')])
        motif = [{'op': 'model.op', 'm': m, 'k': 'setstruct', 'uid': {'idx': sidx}, 'value': {'s': [{'tuplev': [1, 2]}, {'tuplev': [2, 1]}, {'tuplev': [1, 1]}]}},
                 {'op': 'model.op', 'm': m, 'k': 'emplace', 'type': 'term', 'def': first % sidx},
                 {'op': 'model.op', 'm': m, 'k': 'emplace', 'type': 'term', 'def': 'card($[-1])'},
                 {'op': 'model.op', 'm': m, 'k': 'recalcall'},
                 {'op': 'model.op', 'm': m, 'k': 'setexpr', 'uid': {'idx': -2}, 'text': second % sidx},
                 {'op': 'model.op', 'm': m, 'k': 'calculate', 'uid': {'idx': -1}}]
        for op in motif:
            ops.append(op)
            plan.append('op')
            ops.append({'op': 'model.snap', 'm': m, 'rebuild': True})
            plan.append('snap')
    # at most ONE of the directed motifs below per history (each adds elements to the first base set; together they would
    # make every later power set in the history several times larger)
    which = rnd.choice(['retype', 'failed-calc', 'func-edit', 'none', 'none'])
    if which == 'retype' and rnd.random() < 0.6:
        # a structure typed through ANOTHER structure holds data; then the other one is redefined so that the dependant keeps being
        # correctly defined but with a typification of another shape (set <-> element <-> pair)
        first, dep, value, second = rnd.choice([
            ('ℬ($[0])', 'ℬ($made[-1])', {'setv': [1, 2]}, 'ℬ($[0]×$[0])'),
            ('ℬ($[0])', '$made[-1]', 1, 'ℬℬ($[0])'),
            ('ℬ($[0]×$[0])', 'ℬ($made[-1])', {'s': [{'tuplev': [1, 2]}]}, 'ℬ($[0])'),
            ('ℬℬ($[0])', '$made[-1]', {'setv': [1, 2]}, 'ℬ($[0])'),
            ('ℬ($[0])', 'ℬ($made[-1]×$made[-1])', {'s': [{'tuplev': [1, 2]}]}, 'ℬℬ($[0])'),
            ('ℬ($[0])', 'ℬ($made[-1])', {'setv': []}, '$[0]')])
        motif = [{'op': 'model.op', 'm': m, 'k': 'addelem', 'uid': {'idx': 0}, 'name': 'k1'}, {'op': 'model.op', 'm': m, 'k': 'addelem', 'uid': {'idx': 0}, 'name': 'k2'},
                 {'op': 'model.op', 'm': m, 'k': 'emplace', 'type': 'structure', 'def': first},
                 {'op': 'model.op', 'm': m, 'k': 'emplace', 'type': 'structure', 'def': dep},
                 {'op': 'model.op', 'm': m, 'k': 'setstruct', 'uid': {'made': -1}, 'value': value},
                 {'op': 'model.op', 'm': m, 'k': 'setexpr', 'uid': {'made': -2}, 'text': second},
                 {'op': 'model.op', 'm': m, 'k': 'recalcall'}]
        for op in motif:
            ops.append(op)
            plan.append('op')
            ops.append({'op': 'model.snap', 'm': m, 'rebuild': True})
            plan.append('snap')
    if which == 'failed-calc' and rnd.random() < 0.6:
        # a calculation that is refused at run time (debool of a two-element set), then an edit of the global it used, then a
        # calculation of ANOTHER constituent over the same global: no successful evaluation in between
        motif = [{'op': 'model.op', 'm': m, 'k': 'addelem', 'uid': {'idx': 0}, 'name': 'f1'}, {'op': 'model.op', 'm': m, 'k': 'addelem', 'uid': {'idx': 0}, 'name': 'f2'},
                 {'op': 'model.op', 'm': m, 'k': 'emplace', 'type': 'term', 'def': rnd.choice(['debool($[0])', '{debool($[0])}', 'debool($[0]\\$[0])'])},
                 {'op': 'model.op', 'm': m, 'k': 'emplace', 'type': rnd.choice(['term', 'axiom']), 'def': rnd.choice(['$[0]∪$[0]', 'ℬ($[0])', 'card($[0])'])},
                 {'op': 'model.op', 'm': m, 'k': 'calculate', 'uid': {'made': -2}},
                 {'op': 'model.op', 'm': m, 'k': 'addelem', 'uid': {'idx': 0}, 'name': 'f3'},
                 {'op': 'model.op', 'm': m, 'k': 'calculate', 'uid': {'made': -1}},
                 {'op': 'model.op', 'm': m, 'k': 'calculate', 'uid': {'made': -2}}]
        if motif[3]['type'] == 'axiom':
            motif[3]['def'] = rnd.choice(['card($[0])=3', '$[0]=$[0]∪$[0]', 'card(ℬ($[0]))=8'])
        for op in motif:
            ops.append(op)
            plan.append('op')
            ops.append({'op': 'model.snap', 'm': m, 'rebuild': True})
            plan.append('snap')
    if shape == 'funcs' and which == 'func-edit':
        # the same caller is calculated immediately before and after the body of the function it calls (directly / through another
        # function) is edited: nothing else is evaluated on this model in between
        caller = rnd.choice([4, 11])
        body = rnd.choice(['[a∈ℬ($[0])] a\\Pr1($[2])', '[a∈ℬ($[0])] a', '[a∈ℬ($[0])] a∪Pr1($[2])', '[a∈ℬ($[0])] D{x∈a | x∉Pr1($[2])}'])
        motif = [{'op': 'model.op', 'm': m, 'k': 'addelem', 'uid': {'idx': 0}, 'name': 'm1'}, {'op': 'model.op', 'm': m, 'k': 'addelem', 'uid': {'idx': 0}, 'name': 'm2'},
                 {'op': 'model.op', 'm': m, 'k': 'setstruct', 'uid': {'idx': 2}, 'value': {'s': [{'tuplev': [1, 1]}]}},
                 {'op': 'model.op', 'm': m, 'k': 'calculate', 'uid': {'idx': caller}},
                 {'op': 'model.op', 'm': m, 'k': 'setexpr', 'uid': {'idx': 3}, 'text': body},
                 {'op': 'model.op', 'm': m, 'k': 'calculate', 'uid': {'idx': caller}}]
        for op in motif:
            ops.append(op)
            plan.append('op')
            ops.append({'op': 'model.snap', 'm': m, 'rebuild': True})
            plan.append('snap')
    for _ in range(length):
        r = rnd.random()
        op = {'op': 'model.op', 'm': m}
        if r < 0.14:
            op.update(k='addelem', uid={'idx': rnd.choice(bases)}, name=rnd.choice(['a', 'b', 'новый', 'x' + str(rnd.randint(0, 99))]))
        elif r < 0.28:
            keys = rnd.sample(range(1, 8), rnd.randint(0, 4))
            op.update(k='settext', uid={'idx': rnd.choice(bases)}, texts={str(k): f'n{k}' for k in keys})
        elif r < 0.40:
            pairs = [[rnd.randint(1, 5), rnd.randint(1, 5)] for _ in range(rnd.randint(0, 4))]
            val = rnd.choice([{'s': [{'tuplev': p} for p in pairs]}, {'s': [{'t': [p[0], {'setv': [p[1]]}]} for p in pairs]}, {'setv': [p[0] for p in pairs]}, 3,
                              {'s': [{'setv': p} for p in pairs]}])
            op.update(k='setstruct', uid={'idx': rnd.choice(structs)}, value=val)
        elif r < 0.46:
            op.update(k='resetdata', uid={'idx': rnd.randrange(4)})
        elif r < 0.60:
            op.update(k='setexpr', uid=fg.uid_arg(rnd, 10), text=fg.fill(rnd, rnd.choice(DEFS), 8))
        elif r < 0.67:
            op.update(k='erase', uid=fg.uid_arg(rnd, 10, gone=0.1))
        elif r < 0.85:
            op.update(k='calculate', uid=fg.uid_arg(rnd, 10, gone=0.02, foreign=0.02))
        elif r < 0.92:
            op.update(k='recalcall')
        elif r < 0.97:
            ctype = rnd.choice(['term', 'term', 'axiom', 'basic', 'structure'])
            op.update(k='emplace', type=ctype, **{'def': fg.fill(rnd, rnd.choice(DEFS), 8) if ctype in ('term', 'axiom') else ('' if ctype == 'basic' else 'ℬ($[0])')})
        else:
            op.update(k='insertcopy_rec', rec=fg.record(rnd, 8))
        ops.append(op)
        plan.append('op')
        ops.append({'op': 'model.snap', 'm': m, 'rebuild': True})
        plan.append('snap')
    return core.case(ops, kind='history', plan=plan, shape=shape)


def acceptable(value, typ, base_keys):
    """independent reading of 'structure data is valid for the base interpretation': every element sits in the current
    interpretation of the base / constant set its position is typed by (integers: any)"""
    if typ[0] == 'e':
        if not isinstance(value, int) or isinstance(value, bool):
            return False
        if typ[1] == 'Z':
            return True
        keys = base_keys.get(typ[1])
        return True if keys is None else value in keys
    if typ[0] == 't':
        return isinstance(value, tuple) and len(value) == len(typ[1]) and all(acceptable(v, t, base_keys) for v, t in zip(value, typ[1]))
    return isinstance(value, frozenset) and all(acceptable(v, typ[1], base_keys) for v in value)


def canon(j):
    if j is None:
        return None
    try:
        return sm.from_obs(j)
    except ValueError:
        return 'BIG'


def judge(res, cs, cr):
    if not core.std_death_checks(res, PROP, cs, cr):
        return
    last = None
    trace = []
    calculated_once = False
    edit_after_calc = False
    for idx, (op, ev, pl) in enumerate(zip(cs['ops'], cr.events, cs['meta']['plan'])):
        if pl == 'op':
            last = (op, ev)
            trace.append({k: v for k, v in op.items() if k not in ('op', 'm')})
            res.cover('op:' + op['k'])
            if op['k'] in ('calculate', 'recalcall') and ev.get('ret', True):
                calculated_once = True
            elif calculated_once and op['k'] in ('addelem', 'settext', 'setstruct', 'resetdata', 'setexpr', 'erase'):
                edit_after_calc = True
            continue
        if pl != 'snap':
            continue
        live, rebuilt = ev['snap'], ev['rebuilt']
        bad = None
        base_keys = {}
        for uid, val in live['values'].items():
            if live['items'][uid]['type'] in ('basic', 'constant'):
                keys = canon(val['sdata'])
                base_keys[live['items'][uid]['alias']] = keys if isinstance(keys, frozenset) else None
        for uid, val in live['values'].items():
            item = live['items'][uid]
            rv = rebuilt['values'].get(uid)
            if rv is None:
                bad = bad or ('reconstruction-lost-constituent', f'{uid} missing in the reconstruction')
                continue
            ctype = item['type']
            res.count('judged')
            if ctype in ('basic', 'constant'):
                if canon(val['sdata']) != canon(rv['sdata']) or val.get('texts') != rv.get('texts'):
                    bad = bad or ('base-data-differs', f"{item['alias']}: live base data {val['sdata']} / {val.get('texts')} vs reconstruction {rv['sdata']} / {rv.get('texts')}")
                continue
            if ctype == 'structure':
                if item['status'] != 'verified' or rebuilt['items'][uid]['status'] != 'verified':
                    if val['sdata'] is not None and canon(val['sdata']) not in (frozenset(), None):
                        bad = bad or (f"structure-data-kept-while-incorrect:{last[0]['k']}", f"{item['alias']} is not correctly defined but shows data {val['sdata']}")
                    else:
                        res.count('unspecified')
                    continue
                if ev['struct_accepted'].get(uid) is False:
                    bad = bad or (f"structure-not-pruned:{last[0]['k']}", f"{item['alias']}: live structure data {val['sdata']} is not valid for the current base interpretation")
                data = canon(val['sdata'])
                if data not in (None, 'BIG') and item['typ']:
                    res.count('structures_walked')
                    if not acceptable(data, ec.parse_type(item['typ']), base_keys):
                        bad = bad or (f"structure-not-pruned:{last[0]['k']}", f"{item['alias']} typed {item['typ']}: live structure data {val['sdata']} holds elements outside the current base interpretation {base_keys}")
                continue
            if ctype in ('function', 'predicate'):
                continue
            if not val['wascalc']:
                continue
            shown = canon(val['sdata']) if val['sdata'] is not None else val['statement']
            if shown is None:
                continue
            expected = canon(rv['sdata']) if rv['sdata'] is not None else rv['statement']
            if shown == 'BIG' or expected == 'BIG':
                res.count('inconclusive')
                continue
            if shown != expected or type(shown) != type(expected):
                bad = bad or (f"stale-after:{last[0]['k']}", f"{item['alias']} := {item['def']!r} shows the calculated value {val['sdata'] if val['sdata'] is not None else val['statement']} "
                                                          f"but recalculating from the current data gives {rv['sdata'] if rv['sdata'] is not None else rv['statement']} (status {rv['status']})")
        res.count('snapshots')
        if bad:
            base = {it['alias']: live['values'][u].get('texts') for u, it in live['items'].items() if it['type'] in ('basic', 'constant')}
            defs = {it['alias']: it['def'] for it in live['items'].values()}
            res.violation(f'{PROP}/model/{bad[0]}', f"after {trace[-1]} (ret {last[1].get('ret')}): {bad[1]}; definitions {defs}; base texts {base}; history {trace[-5:]}",
                          {'ops': cs['ops'][:idx + 1], 'meta': {'kind': 'history', 'plan': cs['meta']['plan'][:idx + 1], 'shape': cs['meta']['shape']}})
            break
    res.judged(repr(cs['ops']), nontrivial=edit_after_calc)
    res.counters['judged'] -= 1
    res.count('histories')
    res.cover('shape:' + cs['meta']['shape'])
    if edit_after_calc:
        res.sample({'shape': cs['meta']['shape'], 'ops': trace[:8], 'length': len(trace)}, limit=1)


def run_shard(desc, env):
    res = core.ShardResult()
    rnd = env.rng('c11', desc['i'])
    n = 12 if env.tier == 'quick' else 300
    cases = [history(rnd, desc['i'] * 100000 + k, rnd.randint(10, 50)) for k in range(n)]
    for cs, cr in env.execute(cases, chunk=10):
        judge(res, cs, cr)
    return res


def replay(cs, env):
    res = core.ShardResult()
    for c, cr in env.execute([cs]):
        judge(res, c, cr)
    return res


RULE = RULE + ' Directed motifs: index-only edits; a caller calculated immediately before and after an edit of the function body it calls; a structure typed through another structure that is redefined with a typification of another shape; a calculation refused at run time followed by a data edit and a calculation over the same global.'
