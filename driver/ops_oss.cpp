// oss.* : operation-schema histories against an in-memory source manager (C19)
#include "drv.h"

#include "ccl/oss/OSSchema.h"
#include "ccl/ops/RSOperations.h"
#include "ccl/ops/EquationOptions.h"
#include "ccl/semantic/RSForm.h"
#include "ccl/env/cclEnvironment.h"
#include "ccl/tools/JSON.h"

#include <algorithm>
#include <list>
#include <map>
#include <memory>
#include <random>

using drv::json;
using namespace ccl;            // NOLINT
using namespace ccl::semantic;  // NOLINT
using OJSON = nlohmann::ordered_json;

namespace {

class MemManager;

//! In-memory document: what an editor window with an RS-form would be for the operation schema
class MemSource final : public src::Source, public types::Observer {
public:
  RSForm schema{};
  std::u8string fullName{};
  bool saved{ true };
  bool open{ true };
  uint32_t writes{ 0 };   // how many times an operation result was written into this document
  bool readOnly{ false }; // failure injection: the document refuses to store an operation result
  MemManager* owner{ nullptr };

  MemSource() { schema.AddObserver(*this); }
  ~MemSource() override { schema.RemoveObserver(*this); }
  MemSource(const MemSource&) = delete;
  MemSource& operator=(const MemSource&) = delete;

  void OnObserve(const types::Message& /*msg*/) override { saved = false; }

  [[nodiscard]] change::Hash CoreHash() const override { return schema.CoreHash(); }
  [[nodiscard]] change::Hash FullHash() const override { return schema.FullHash(); }
  [[nodiscard]] bool WriteData(meta::UniqueCPPtr<src::DataStream> data) override {
    const auto* rsData = dynamic_cast<const RSForm*>(data.get());
    if (rsData == nullptr || readOnly) {
      return false;
    }
    schema = *rsData;
    ++writes;
    return true;
  }
  [[nodiscard]] const src::DataStream* ReadData() const override { return &schema; }
  [[nodiscard]] src::DataStream* AccessData() override { return &schema; }
  [[nodiscard]] src::SrcType Type() const noexcept override { return src::SrcType::rsDoc; }
};

struct Announced {
  std::unique_ptr<RSForm> schema;
  change::Hash coreHash{ 0 };
  uint32_t count{ 0 };
};

class MemManager final : public SourceManager {
public:
  std::list<MemSource> sources{};
  std::map<std::string, Announced> announced{};  // by document name: content at the last announced change
  uint32_t created{ 0 };
  uint32_t locals{ 0 };
  uint32_t announcements{ 0 };

  static std::string Name(const std::u8string& s) { return std::string(s.begin(), s.end()); }

  MemSource& Cast(src::Source& s) { return dynamic_cast<MemSource&>(s); }

  void Record(const MemSource& s) {
    auto& slot = announced[Name(s.fullName)];
    slot.schema = std::make_unique<RSForm>(s.schema);
    slot.coreHash = s.schema.CoreHash();
    ++slot.count;
    ++announcements;
  }

  void AnnounceChange(MemSource& s) {
    Record(s);
    OnSourceChange(s);
  }

  void TriggerSave(MemSource& s) {
    if (!s.saved) {
      s.saved = true;
      AnnounceChange(s);
    }
  }
  void TriggerOpen(MemSource& s) {
    s.open = true;
    OnSourceOpen(s);
  }
  void TriggerClose(MemSource& s) {
    OnSourceClose(s);
    s.open = false;
    s.saved = true;
  }

  MemSource& CreateDocument() {
    ++created;
    auto* s = CreateNew(src::Descriptor{ src::SrcType::rsDoc, to_u8string("doc" + std::to_string(created) + ".trs") });
    return Cast(*s);
  }

  MemSource* ByName(const std::u8string& name) {
    for (auto& s : sources) {
      if (s.fullName == name) {
        return &s;
      }
    }
    return nullptr;
  }

public:
  [[nodiscard]] bool TestDomain(const src::Descriptor& global, const std::u8string& domain) const override {
    return std::empty(domain) || global.name.find(domain) == 0;
  }
  [[nodiscard]] src::Descriptor Convert2Local(const src::Descriptor& global, const std::u8string& domain) const override {
    auto local = global;
    if (!std::empty(domain)) {
      local.name.erase(0, domain.length());
    }
    return local;
  }
  [[nodiscard]] src::Descriptor Convert2Global(const src::Descriptor& local, const std::u8string& domain) const override {
    return src::Descriptor{ local.type, domain + local.name };
  }
  [[nodiscard]] src::Source* Find(const src::Descriptor& desc) override {
    for (auto& s : sources) {
      if (s.fullName == desc.name && s.open) {
        return &s;
      }
    }
    return nullptr;
  }
  [[nodiscard]] src::Descriptor CreateLocalDesc(src::SrcType type, std::u8string localName) const override {
    if (std::empty(localName)) {
      localName = to_u8string("local" + std::to_string(++const_cast<MemManager*>(this)->locals));  // NOLINT
    }
    localName += u8".trs";
    return src::Descriptor{ type, localName };
  }
  [[nodiscard]] src::Descriptor GetDescriptor(const src::Source& s) const override {
    if (const auto* p = dynamic_cast<const MemSource*>(&s); p != nullptr) {
      return src::Descriptor{ src::SrcType::rsDoc, p->fullName };
    }
    return src::Descriptor{};
  }
  [[nodiscard]] src::Source* CreateNew(const src::Descriptor& desc) override {
    if (ByName(desc.name) != nullptr) {
      return nullptr;
    }
    sources.emplace_back();
    sources.back().fullName = desc.name;
    sources.back().owner = this;
    return &sources.back();
  }
  [[nodiscard]] src::Source* Open(const src::Descriptor& desc) override {
    if (auto* s = ByName(desc.name); s != nullptr) {
      TriggerOpen(*s);
      return s;
    }
    return nullptr;
  }
  void Close(src::Source& s) override {
    auto& ms = Cast(s);
    AnnounceChange(ms);
    OnSourceClose(ms);
    TriggerSave(ms);
    TriggerClose(ms);
  }
  [[nodiscard]] bool ChangeDescriptor(const src::Descriptor& desc, const src::Descriptor& newDesc) override {
    auto* target = Find(desc);
    if (target == nullptr || ByName(newDesc.name) != nullptr) {
      return false;
    }
    Cast(*target).fullName = newDesc.name;
    return true;
  }
  [[nodiscard]] bool SaveState(src::Source& s) override {
    auto& ms = Cast(s);
    if (!ms.open) {
      return false;
    }
    TriggerSave(ms);
    return true;
  }
  void Discard(const src::Descriptor& desc) override {
    if (auto* s = Open(desc); s != nullptr) {
      s->ReleaseClaim();
      Close(*s);
    }
  }
};

struct World {
  std::unique_ptr<oss::OSSchema> schema;
  std::vector<oss::PictID> picts;  // in creation order; erased ones stay (stale ids)
};

World& TheWorld() {
  static World w;
  return w;
}

MemManager& Manager() { return dynamic_cast<MemManager&>(Environment::Sources()); }

void ResetWorld() {
  auto& w = TheWorld();
  w.schema.reset();
  Environment::Instance().SetSourceManager(std::make_unique<MemManager>());
  w.schema = std::make_unique<oss::OSSchema>();
  w.picts.clear();
}

CstType TypeOf(const std::string& s) {
  if (s == "basic") return CstType::base;
  if (s == "constant") return CstType::constant;
  if (s == "structure") return CstType::structured;
  if (s == "axiom") return CstType::axiom;
  if (s == "term") return CstType::term;
  if (s == "function") return CstType::function;
  if (s == "theorem") return CstType::theorem;
  if (s == "predicate") return CstType::predicate;
  throw std::runtime_error("harness: bad cst type " + s);
}

const char* TypeName(CstType t) {
  switch (t) {
  case CstType::base: return "basic";
  case CstType::constant: return "constant";
  case CstType::structured: return "structure";
  case CstType::axiom: return "axiom";
  case CstType::term: return "term";
  case CstType::function: return "function";
  case CstType::theorem: return "theorem";
  case CstType::predicate: return "predicate";
  default: return "?";
  }
}

// "$[n]" -> alias of the n-th constituent (modulo size) of the schema
std::string Resolve(const RSForm& form, std::string text) {
  std::vector<EntityUID> list(form.List().begin(), form.List().end());
  size_t pos = 0;
  while ((pos = text.find("$[", pos)) != std::string::npos) {
    const auto close = text.find(']', pos);
    if (close == std::string::npos) {
      break;
    }
    const auto raw = std::stoll(text.substr(pos + 2, close - pos - 2));
    const auto n = list.empty() ? 0U : (raw >= 0 ? static_cast<size_t>(raw) % list.size() : list.size() - 1 - (static_cast<size_t>(-raw - 1) % list.size()));
    const std::string name = list.empty() ? std::string{ "X1" } : form.GetRS(list[n]).alias;
    text.replace(pos, close - pos + 1, name);
    pos += name.size();
  }
  return text;
}

std::optional<EntityUID> NthCst(const RSForm& form, const json& idx) {
  std::vector<EntityUID> list(form.List().begin(), form.List().end());
  if (list.empty()) {
    return std::nullopt;
  }
  const auto raw = idx.get<long long>();  // negative: counted from the end of the list
  return raw >= 0 ? list[static_cast<size_t>(raw) % list.size()] : list[list.size() - 1 - (static_cast<size_t>(-raw - 1) % list.size())];
}

json SchemaSummary(const RSForm& form) {
  json items = json::array();
  for (const auto uid : form.List()) {
    const auto& rs = form.GetRS(uid);
    const auto& text = form.GetText(uid);
    const auto* flags = form.Mods()(uid);
    json it = json::object();
    it["uid"] = uid;
    it["alias"] = drv::PutBytes(rs.alias);
    it["type"] = TypeName(rs.type);
    it["def"] = drv::PutBytes(rs.definition);
    it["conv"] = drv::PutBytes(rs.convention);
    it["term"] = drv::PutBytes(text.term.Text().Raw());
    it["text"] = drv::PutBytes(text.definition.Raw());
    it["tracked"] = flags != nullptr;
    if (flags != nullptr) {
      it["flags"] = json::array({ flags->allowEdit, flags->term, flags->definition, flags->convention });
    }
    it["status"] = form.GetParse(uid).status == ParsingStatus::VERIFIED ? "verified" : (form.GetParse(uid).status == ParsingStatus::INCORRECT ? "incorrect" : "unknown");
    items.push_back(it);
  }
  json out = json::object();
  out["items"] = items;
  out["corehash"] = form.CoreHash();
  return out;
}

json TranslationJ(const EntityTranslation& tr) {
  std::map<EntityUID, EntityUID> sorted(tr.begin(), tr.end());
  json out = json::array();
  for (const auto& [k, v] : sorted) {
    out.push_back(json::array({ k, v }));
  }
  return out;
}

const char* StatusName(ops::Status s) {
  switch (s) {
  case ops::Status::undefined: return "undefined";
  case ops::Status::defined: return "defined";
  case ops::Status::done: return "done";
  case ops::Status::outdated: return "outdated";
  case ops::Status::broken: return "broken";
  default: return "?";
  }
}

json Snapshot() {
  auto& w = TheWorld();
  auto& schema = *w.schema;
  auto& mgr = Manager();
  json out = json::object();
  json picts = json::object();
  std::vector<oss::PictID> ids;
  for (const auto& pict : schema) {
    ids.push_back(pict.uid);
  }
  std::sort(ids.begin(), ids.end());
  for (const auto pid : ids) {
    json p = json::object();
    const auto pos = schema.Grid()(pid);
    if (pos.has_value()) {
      p["pos"] = json::array({ pos->row, pos->column });
      const auto owner = schema.Grid()(*pos);
      p["cell_owner"] = owner.has_value() ? json(*owner) : json{};
    } else {
      p["pos"] = nullptr;
    }
    const auto* handle = schema.Src()(pid);
    p["has_handle"] = handle != nullptr;
    if (handle != nullptr) {
      p["handle_empty"] = handle->empty();
      p["connected"] = handle->src != nullptr;
      p["doc"] = MemManager::Name(handle->desc.name);
      p["handle_corehash"] = handle->coreHash;
      const MemSource* doc = handle->src != nullptr ? &mgr.Cast(*handle->src) : mgr.ByName(schema.Src().ossDomain + handle->desc.name);
      if (doc != nullptr && !handle->empty()) {
        p["doc_open"] = doc->open;
        p["doc_saved"] = doc->saved;
        p["doc_writes"] = doc->writes;
        p["doc_readonly"] = doc->readOnly;
        p["data"] = SchemaSummary(doc->schema);
        const auto it = mgr.announced.find(MemManager::Name(doc->fullName));
        if (it != mgr.announced.end()) {
          p["announced"] = SchemaSummary(*it->second.schema);
          p["announced_count"] = it->second.count;
        }
      }
    }
    const auto* op = schema.Ops()(pid);
    p["is_operation"] = op != nullptr;
    if (op != nullptr) {
      p["op_type"] = op->type == ops::Type::rsMerge ? "merge" : (op->type == ops::Type::rsSynt ? "synt" : "tba");
      p["broken"] = op->broken;
      p["outdated"] = op->outdated;
      if (op->translations != nullptr) {
        json trs = json::array();
        for (const auto& tr : *op->translations) {
          trs.push_back(TranslationJ(tr));
        }
        p["translations"] = trs;
      }
      if (const auto* eqs = dynamic_cast<const ops::EquationOptions*>(op->options.get()); eqs != nullptr) {
        json pairs = json::array();
        std::map<EntityUID, EntityUID> sorted(eqs->begin(), eqs->end());
        for (const auto& [k, v] : sorted) {
          pairs.push_back(json::array({ k, v }));
        }
        p["pairs"] = pairs;
      }
    }
    p["status"] = StatusName(schema.Ops().StatusOf(pid));
    p["parents"] = schema.Graph().ParentsOf(pid);
    auto children = schema.Graph().ChildrenOf(pid);
    std::sort(children.begin(), children.end());
    p["children"] = children;
    picts[std::to_string(pid)] = p;
  }
  out["picts"] = picts;
  json edges = json::array();
  for (const auto& [child, parent] : schema.Graph().EdgeList()) {
    edges.push_back(json::array({ child, parent }));
  }
  out["edges"] = edges;
  out["execute_order"] = schema.Graph().ExecuteOrder();
  out["size"] = schema.size();
  out["created"] = w.picts;
  json cells = json::array();
  for (const auto& [pos, pid] : schema.Grid().data()) {
    cells.push_back(json::array({ pos.row, pos.column, pid }));
  }
  std::sort(cells.begin(), cells.end());
  out["cells"] = cells;
  out["announcements"] = mgr.announcements;
  return out;
}

// a fresh synthesis of the parents' schemas with the operation's current options: the reference for "result == synthesis"
json ReferenceSynthesis(oss::PictID pid, bool fromAnnounced) {
  auto& schema = *TheWorld().schema;
  auto& mgr = Manager();
  const auto parents = schema.Graph().ParentsOf(pid);
  const auto* op = schema.Ops()(pid);
  if (op == nullptr || parents.size() != 2) {
    return nullptr;
  }
  const RSForm* operands[2] = { nullptr, nullptr };
  for (size_t i = 0; i < 2; ++i) {
    const auto* handle = schema.Src()(parents[i]);
    if (handle == nullptr || handle->empty()) {
      return nullptr;
    }
    const MemSource* doc = handle->src != nullptr ? &mgr.Cast(*handle->src) : mgr.ByName(schema.Src().ossDomain + handle->desc.name);
    if (doc == nullptr) {
      return nullptr;
    }
    if (fromAnnounced) {
      const auto it = mgr.announced.find(MemManager::Name(doc->fullName));
      if (it == mgr.announced.end()) {
        return nullptr;
      }
      operands[i] = it->second.schema.get();
    } else {
      operands[i] = &doc->schema;
    }
  }
  ops::EquationOptions eqs{};
  if (const auto* stored = dynamic_cast<const ops::EquationOptions*>(op->options.get()); stored != nullptr && op->type == ops::Type::rsSynt) {
    eqs = *stored;
  }
  ops::BinarySynthes synth{ *operands[0], *operands[1], eqs };
  json out = json::object();
  out["correct"] = synth.IsCorrectlyDefined();
  if (auto result = synth.Execute(); result != nullptr) {
    out["result"] = SchemaSummary(*result);
    json trs = json::array();
    for (const auto& tr : synth.Translations()) {
      trs.push_back(TranslationJ(tr));
    }
    out["translations"] = trs;
  }
  return out;
}

std::optional<oss::PictID> PictOf(const json& ref) {
  const auto& w = TheWorld();
  if (ref.is_object() && ref.contains("raw")) {
    return ref["raw"].get<oss::PictID>();
  }
  if (w.picts.empty()) {
    return std::nullopt;
  }
  return w.picts[ref.get<size_t>() % w.picts.size()];
}

MemSource* DocOf(oss::PictID pid, bool openIfNeeded) {
  auto& schema = *TheWorld().schema;
  auto* s = schema.Src().ActiveSrc(pid);
  if (s == nullptr && openIfNeeded) {
    s = schema.Src().OpenSrc(pid);
  }
  return s == nullptr ? nullptr : &Manager().Cast(*s);
}

void ApplyEdits(RSForm& form, const json& edits, json& log) {
  for (const auto& e : edits) {
    const auto k = e.at("k").get<std::string>();
    if (k == "emplace") {
      log.push_back(form.Emplace(TypeOf(e.at("type").get<std::string>()), Resolve(form, e.value("def", std::string{}))));
    } else if (k == "setexpr") {
      const auto uid = NthCst(form, e.at("i"));
      log.push_back(uid.has_value() ? json(form.SetExpressionFor(*uid, Resolve(form, e.at("text").get<std::string>()))) : json{});
    } else if (k == "erase") {
      const auto uid = NthCst(form, e.at("i"));
      log.push_back(uid.has_value() ? json(form.Erase(*uid)) : json{});
    } else if (k == "setterm") {
      const auto uid = NthCst(form, e.at("i"));
      log.push_back(uid.has_value() ? json(form.SetTermFor(*uid, Resolve(form, e.at("text").get<std::string>()))) : json{});
    } else if (k == "setdef") {
      const auto uid = NthCst(form, e.at("i"));
      log.push_back(uid.has_value() ? json(form.SetDefinitionFor(*uid, Resolve(form, e.at("text").get<std::string>()))) : json{});
    } else if (k == "setconv") {
      const auto uid = NthCst(form, e.at("i"));
      log.push_back(uid.has_value() ? json(form.SetConventionFor(*uid, Resolve(form, e.at("text").get<std::string>()))) : json{});
    } else if (k == "setalias") {
      const auto uid = NthCst(form, e.at("i"));
      log.push_back(uid.has_value() ? json(form.SetAliasFor(*uid, e.at("alias").get<std::string>(), true)) : json{});
    } else if (k == "swapdefs") {
      // the formal definitions of two constituents change places (same multiset of names and definitions)
      const auto u1 = NthCst(form, e.at("i"));
      const auto u2 = NthCst(form, e.at("j"));
      if (u1.has_value() && u2.has_value() && *u1 != *u2) {
        const std::string d1 = form.GetRS(*u1).definition;
        const std::string d2 = form.GetRS(*u2).definition;
        const bool a = form.SetExpressionFor(*u1, d2);
        const bool b = form.SetExpressionFor(*u2, d1);
        log.push_back(json::array({ a, b }));
      } else {
        log.push_back(nullptr);
      }
    } else if (k == "swapfields") {
      // the formal definition and the convention text of ONE constituent change places (same multiset of texts in the schema)
      const auto uid = NthCst(form, e.at("i"));
      if (uid.has_value()) {
        const std::string def = form.GetRS(*uid).definition;
        const std::string conv = form.GetRS(*uid).convention;
        const bool a = form.SetExpressionFor(*uid, conv);
        const bool b = form.SetConventionFor(*uid, def);
        log.push_back(json::array({ a, b }));
      } else {
        log.push_back(nullptr);
      }
    } else if (k == "move") {
      const auto uid = NthCst(form, e.at("i"));
      const auto before = NthCst(form, e.at("before"));
      log.push_back(uid.has_value() && before.has_value() ? json(form.MoveBefore(*uid, form.List().Find(*before))) : json{});
    } else {
      throw std::runtime_error("harness: bad edit " + k);
    }
  }
}

}  // namespace

DRV_OP(OpOssReset, "oss.reset") {
  ResetWorld();
  return json{ {"snap", Snapshot()} };
}

DRV_OP(OpOssDrop, "oss.drop") {
  TheWorld().schema.reset();
  Environment::Instance().SetSourceManager(std::make_unique<SourceManager>());
  return json::object();
}

DRV_OP(OpOssDump, "oss.dump") {
  auto& w = TheWorld();
  if (w.schema == nullptr) {
    ResetWorld();
  }
  const OJSON doc = *w.schema;
  return json{ {"doc", doc.dump()} };
}

// load an operation-schema document (possibly malformed); documents of the current world stay available to be opened
DRV_OP(OpOssLoad, "oss.load") {
  auto& w = TheWorld();
  if (w.schema == nullptr || a.value("fresh", false)) {
    ResetWorld();
  }
  const auto doc = OJSON::parse(drv::GetBytes(a, "doc"));
  w.schema.reset();
  w.schema = std::make_unique<oss::OSSchema>();
  doc.get_to(*w.schema);
  w.picts.clear();
  for (const auto& pict : *w.schema) {
    w.picts.push_back(pict.uid);
  }
  std::sort(w.picts.begin(), w.picts.end());
  return json{ {"snap", Snapshot()} };
}

DRV_OP(OpOssOp, "oss.op") {
  auto& w = TheWorld();
  if (w.schema == nullptr) {
    ResetWorld();
  }
  auto& schema = *w.schema;
  auto& mgr = Manager();
  const auto k = a.at("k").get<std::string>();
  json out = json::object();
  if (k == "base") {
    const auto* p = schema.InsertBase();
    out["ret"] = p != nullptr ? json(p->uid) : json{};
    if (p != nullptr) {
      w.picts.push_back(p->uid);
    }
  } else if (k == "operation") {
    const auto p1 = PictOf(a.at("p1"));
    const auto p2 = PictOf(a.at("p2"));
    out["args"] = json::array({ p1.has_value() ? json(*p1) : json{}, p2.has_value() ? json(*p2) : json{} });
    if (p1.has_value() && p2.has_value()) {
      const auto* p = schema.InsertOperation(*p1, *p2);
      out["ret"] = p != nullptr ? json(p->uid) : json{};
      if (p != nullptr) {
        w.picts.push_back(p->uid);
      }
    }
  } else {
    const auto pid = a.contains("p") ? PictOf(a.at("p")) : std::nullopt;
    out["pid"] = pid.has_value() ? json(*pid) : json{};
    if (k == "erase") {
      out["ret"] = pid.has_value() ? json(schema.Erase(*pid)) : json{};
    } else if (k == "connect") {
      if (pid.has_value()) {
        auto& doc = mgr.CreateDocument();
        json log = json::array();
        ApplyEdits(doc.schema, a.at("schema"), log);
        doc.saved = true;
        mgr.Record(doc);
        out["ret"] = schema.Src().ConnectPict2Src(*pid, doc);
      }
    } else if (k == "edit") {
      if (pid.has_value()) {
        if (auto* doc = DocOf(*pid, a.value("open", false)); doc != nullptr) {
          json log = json::array();
          ApplyEdits(doc->schema, a.at("edits"), log);
          out["log"] = log;
          if (a.value("save", false)) {
            mgr.TriggerSave(*doc);
          }
          out["ret"] = true;
        } else {
          out["ret"] = false;
        }
      }
    } else if (k == "save") {
      if (pid.has_value()) {
        if (auto* doc = DocOf(*pid, false); doc != nullptr) {
          mgr.TriggerSave(*doc);
          out["ret"] = true;
        } else {
          out["ret"] = false;
        }
      }
    } else if (k == "close") {
      if (pid.has_value()) {
        if (auto* doc = DocOf(*pid, false); doc != nullptr) {
          if (a.value("save", true)) {
            mgr.TriggerSave(*doc);
          }
          mgr.TriggerClose(*doc);   // without save: the window is closed while a change has not been announced yet
          out["ret"] = true;
        } else {
          out["ret"] = false;
        }
      }
    } else if (k == "isexecutable") {
      // a pure query of the public interface (it re-checks the operation without executing it)
      out["ret"] = pid.has_value() ? json(schema.Ops().IsExecutable(*pid)) : json{};
    } else if (k == "readonly") {
      // the document of the pictogram starts / stops refusing WriteData (a read-only file): executions fail at the store step
      if (pid.has_value()) {
        if (auto* doc = DocOf(*pid, false); doc != nullptr) {
          doc->readOnly = a.value("on", true);
          out["ret"] = true;
        } else {
          out["ret"] = false;
        }
      }
    } else if (k == "announce") {
      // the source manager reports a change of the document (whatever its saved flag says)
      if (pid.has_value()) {
        if (auto* doc = DocOf(*pid, false); doc != nullptr) {
          doc->saved = true;
          mgr.AnnounceChange(*doc);
          out["ret"] = true;
        } else {
          out["ret"] = false;
        }
      }
    } else if (k == "open") {
      out["ret"] = pid.has_value() && schema.Src().OpenSrc(*pid) != nullptr;
    } else if (k == "init") {
      if (pid.has_value()) {
        const auto type = a.at("type").get<std::string>();
        std::unique_ptr<ops::Options> options;
        if (type == "synt" || a.value("force_options", false)) {
          auto eqs = std::make_unique<ops::EquationOptions>();
          const auto parents = schema.Graph().ParentsOf(*pid);
          if (parents.size() == 2) {
            const auto* d0 = dynamic_cast<const RSForm*>(schema.Src().DataFor(parents[0]));
            const auto* d1 = dynamic_cast<const RSForm*>(schema.Src().DataFor(parents[1]));
            if (d0 != nullptr && d1 != nullptr) {
              for (const auto& pr : a.at("pairs")) {
                const auto u0 = NthCst(*d0, pr.at(0));
                const auto u1 = NthCst(*d1, pr.at(1));
                if (u0.has_value() && u1.has_value() && !eqs->ContainsKey(*u0)) {
                  eqs->Insert(*u0, *u1);
                }
              }
            }
          }
          options = std::move(eqs);
        }
        out["ret"] = schema.Ops().InitFor(*pid, type == "synt" ? ops::Type::rsSynt : (type == "merge" ? ops::Type::rsMerge : ops::Type::tba), std::move(options));
      }
    } else if (k == "execute") {
      if (pid.has_value()) {
        json before = json::object();
        if (const auto* op = schema.Ops()(*pid); op != nullptr) {
          if (auto* doc = DocOf(*pid, false); doc != nullptr) {
            before["data"] = SchemaSummary(doc->schema);
          }
        }
        out["before"] = before;
        const bool ok = schema.Ops().Execute(*pid, a.value("auto", false));
        out["ret"] = ok;
        if (ok) {
          out["ref"] = ReferenceSynthesis(*pid, false);
        }
      }
    } else if (k == "executeall") {
      schema.Ops().ExecuteAll();
      out["ret"] = true;
    } else if (k == "reload") {
      // save the operation schema, drop it, load the document with the items in another order
      for (const auto& pict : *w.schema) {   // the user saves every open document before saving the operation schema
        if (auto* d = DocOf(pict.uid, false); d != nullptr) {
          mgr.TriggerSave(*d);
        }
      }
      OJSON doc = *w.schema;
      std::mt19937 gen{ a.value("seed", 1U) };
      auto& items = doc["items"];
      std::vector<OJSON> shuffled(items.begin(), items.end());
      for (size_t i = shuffled.size(); i > 1; --i) {
        std::swap(shuffled[i - 1], shuffled[gen() % i]);
      }
      items = shuffled;
      // connections: a random interleaving that keeps the order of the parents of each operation
      {
        std::vector<std::pair<OJSON, std::vector<OJSON>>> groups;
        for (const auto& c : doc["connections"]) {
          auto it = std::find_if(groups.begin(), groups.end(), [&c](const auto& g) { return g.first == c.at(0); });
          if (it == groups.end()) {
            groups.emplace_back(c.at(0), std::vector<OJSON>{});
            it = groups.end() - 1;
          }
          it->second.push_back(c);
        }
        OJSON mixed = OJSON::array();
        std::vector<size_t> next(groups.size(), 0);
        size_t left = doc["connections"].size();
        while (left > 0) {
          const auto g = gen() % groups.size();
          if (next[g] < groups[g].second.size()) {
            mixed.push_back(groups[g].second[next[g]++]);
            --left;
          }
        }
        doc["connections"] = mixed;
      }
      w.schema.reset();
      w.schema = std::make_unique<oss::OSSchema>();
      doc.get_to(*w.schema);
      out["ret"] = true;
      out["items"] = items.size();
    } else {
      return json{ {"harness_error", "bad oss.op kind " + k} };
    }
  }
  out["snap"] = Snapshot();
  // what a fresh synthesis from the ANNOUNCED content of the parents would be, for every operation that reports done
  json fresh = json::object();
  for (const auto& pict : *w.schema) {
    if (w.schema->Ops().StatusOf(pict.uid) == ops::Status::done) {
      fresh[std::to_string(pict.uid)] = ReferenceSynthesis(pict.uid, true);
    }
  }
  out["fresh_announced"] = fresh;
  return out;
}
