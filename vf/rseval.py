"""Reference evaluator for RSLang abstract trees (DESIGN.md appendix B) - the C01 oracle.

Values: int, tuple, frozenset, bool.  Bottom(kind) = a documented runtime error would apply here.
strict=True evaluates every operand and every domain element (no short-circuit): if it returns a value, no
documented error can occur under ANY evaluation order, and the library must return exactly that value.
strict=False uses the natural short-circuit order and is only used to compare values the library returns although
the strict evaluation hits an error.
"""
import itertools

INT_MIN, INT_MAX = -2 ** 31, 2 ** 31 - 1


class Bottom(Exception):
    def __init__(self, kind):
        super().__init__(kind)
        self.kind = kind


class Budget(Exception):
    pass


class Evaluator:
    def __init__(self, ctx, strict=True, max_steps=200000, max_set=5000):
        self.ctx = ctx
        self.data = ctx.get('data', {})
        self.bodies = ctx.get('bodies', {})
        self.strict = strict
        self.steps = 0
        self.max_steps = max_steps
        self.max_set = max_set
        self.iterations = 0

    def tick(self, n=1):
        self.steps += n
        if self.steps > self.max_steps:
            raise Budget()

    def big(self, n):
        if n > self.max_set:
            raise Budget()

    def bind(self, decl, value, env):
        i = decl[0]
        if i == 'ID_LOCAL':
            env[decl[1]] = value
        elif i == 'NT_TUPLE_DECL':
            for k, c in enumerate(decl[2]):
                self.bind(c, value[k], env)
        else:
            raise ValueError('bad declaration ' + i)

    def ev(self, node, env):
        self.tick()
        i, d, kids = node
        if i == 'LIT_INTEGER':
            return d
        if i == 'LIT_EMPTYSET':
            return frozenset()
        if i == 'LIT_INTSET':
            raise Bottom('iterateInfinity')
        if i == 'ID_LOCAL':
            return env[d]
        if i in ('ID_GLOBAL', 'ID_FUNCTION', 'ID_PREDICATE'):
            if d not in self.data:
                raise Bottom('globalMissingValue')
            return self.data[d]
        if i in ('PLUS', 'MINUS', 'MULTIPLY'):
            a = self.ev(kids[0], env)
            b = self.ev(kids[1], env)
            r = a + b if i == 'PLUS' else (a - b if i == 'MINUS' else a * b)
            if r < INT_MIN or r > INT_MAX:
                raise Bottom('int-overflow')
            return r
        if i == 'CARD':
            return len(self.ev(kids[0], env))
        if i in ('GREATER', 'LESSER', 'GREATER_OR_EQ', 'LESSER_OR_EQ'):
            a = self.ev(kids[0], env)
            b = self.ev(kids[1], env)
            return {'GREATER': a > b, 'LESSER': a < b, 'GREATER_OR_EQ': a >= b, 'LESSER_OR_EQ': a <= b}[i]
        if i in ('EQUAL', 'NOTEQUAL'):
            a = self.ev(kids[0], env)
            b = self.ev(kids[1], env)
            return (a == b) != (i == 'NOTEQUAL')
        if i in ('IN', 'NOTIN'):
            a = self.ev(kids[0], env)
            b = self.ev(kids[1], env)
            return (a in b) != (i == 'NOTIN')
        if i in ('SUBSET', 'SUBSET_OR_EQ', 'NOTSUBSET'):
            a = self.ev(kids[0], env)
            b = self.ev(kids[1], env)
            if i == 'SUBSET':
                return a < b
            if i == 'SUBSET_OR_EQ':
                return a <= b
            return not (a < b)
        if i == 'NOT':
            return not self.ev(kids[0], env)
        if i in ('AND', 'OR', 'IMPLICATION', 'EQUIVALENT'):
            a = self.ev(kids[0], env)
            if not self.strict:
                if i == 'AND' and not a:
                    return False
                if i == 'OR' and a:
                    return True
                if i == 'IMPLICATION' and not a:
                    return True
            b = self.ev(kids[1], env)
            return {'AND': a and b, 'OR': a or b, 'IMPLICATION': (not a) or b, 'EQUIVALENT': a == b}[i]
        if i in ('FORALL', 'EXISTS'):
            return self.quantifier(node, env)
        if i == 'NT_DECLARATIVE_EXPR':
            dom = self.ev(kids[1], env)
            out = set()
            for x in self.ordered(dom):
                self.iterations += 1
                e2 = dict(env)
                self.bind(kids[0], x, e2)
                if self.ev(kids[2], e2):
                    out.add(x)
            return frozenset(out)
        if i == 'NT_IMPERATIVE_EXPR':
            out = set()
            self.imperative(kids, 1, dict(env), out)
            return frozenset(out)
        if i in ('NT_RECURSIVE_FULL', 'NT_RECURSIVE_SHORT'):
            full = i == 'NT_RECURSIVE_FULL'
            cur = self.ev(kids[1], env)
            for _ in range(100001):
                self.tick(5)
                self.iterations += 1
                e2 = dict(env)
                self.bind(kids[0], cur, e2)
                if full and not self.ev(kids[2], e2):
                    return cur
                nxt = self.ev(kids[3 if full else 2], e2)
                if nxt == cur:
                    return nxt
                cur = nxt
            raise Bottom('iterationsLimit')
        if i == 'DECART':
            factors = [self.ev(c, env) for c in kids]
            n = 1
            for f in factors:
                n *= len(f)
            self.big(n)
            self.tick(n)
            return frozenset(itertools.product(*[self.ordered(f) for f in factors]))
        if i == 'BOOLEAN':
            base = self.ev(kids[0], env)
            if len(base) > 12:
                raise Budget()
            self.tick(2 ** len(base))
            items = self.ordered(base)
            return frozenset(frozenset(c) for r in range(len(items) + 1) for c in itertools.combinations(items, r))
        if i == 'NT_TUPLE':
            return tuple(self.ev(c, env) for c in kids)
        if i in ('NT_ENUMERATION',):
            return frozenset(self.ev(c, env) for c in kids)
        if i == 'BOOL':
            return frozenset([self.ev(kids[0], env)])
        if i == 'DEBOOL':
            s = self.ev(kids[0], env)
            if len(s) != 1:
                raise Bottom('invalidDebool')
            return next(iter(s))
        if i in ('UNION', 'INTERSECTION', 'SET_MINUS', 'SYMMINUS'):
            a = self.ev(kids[0], env)
            b = self.ev(kids[1], env)
            return {'UNION': a | b, 'INTERSECTION': a & b, 'SET_MINUS': a - b, 'SYMMINUS': a ^ b}[i]
        if i == 'BIGPR':
            s = self.ev(kids[0], env)
            self.tick(len(s))
            return frozenset(self.proj(x, d) for x in s)
        if i == 'SMALLPR':
            return self.proj(self.ev(kids[0], env), d)
        if i == 'FILTER':
            arg = self.ev(kids[-1], env)
            if not self.strict and not arg:
                return frozenset()
            params = []
            for p in kids[:-1]:
                v = self.ev(p, env)
                if not self.strict and not v:
                    return frozenset()
                params.append(v)
            self.tick(len(arg))
            if len(d) == len(params):
                return frozenset(x for x in arg if all(x[ix - 1] in pv for ix, pv in zip(d, params)))
            return frozenset(x for x in arg if self.proj(x, d) in params[0])
        if i == 'REDUCE':
            s = self.ev(kids[0], env)
            out = set()
            for x in s:
                out |= x
            return frozenset(out)
        if i == 'NT_FUNC_CALL':
            name = kids[0][1]
            body = self.bodies.get(name)
            if body is None:
                raise Bottom('no-body')
            fdef = body[2][1]
            argnames = [a[2][0][1] for a in fdef[2][0][2]]
            e2 = {}
            for an, actual in zip(argnames, kids[1:]):
                e2[an] = self.ev(actual, env)
            return self.ev(fdef[2][1], e2)
        if i == 'PUNC_DEFINE' and len(kids) == 2:
            return self.ev(kids[1], env)
        raise Bottom('not-evaluable:' + i)

    @staticmethod
    def proj(x, idx):
        if len(idx) == 1:
            return x[idx[0] - 1]
        return tuple(x[k - 1] for k in idx)

    @staticmethod
    def ordered(s):
        from .sdmodel import sort_key
        return sorted(s, key=sort_key)

    def quantifier(self, node, env):
        i, _d, kids = node
        dom = self.ev(kids[1], env)
        universal = i == 'FORALL'
        decl = kids[0]
        variables = decl[2] if decl[0] == 'NT_ENUM_DECL' else [decl]
        self.big(len(dom) ** len(variables))
        result = universal
        for combo in itertools.product(self.ordered(dom), repeat=len(variables)):
            self.iterations += 1
            e2 = dict(env)
            for v, x in zip(variables, combo):
                self.bind(v, x, e2)
            val = self.ev(kids[2], e2)
            if val != universal:
                result = not universal
                if not self.strict:
                    return result
        return result

    def imperative(self, kids, k, env, out):
        self.tick()
        if k >= len(kids):
            out.add(self.ev(kids[0], env))
            return
        b = kids[k]
        if b[0] == 'ITERATE':
            dom = self.ev(b[2][1], env)
            for x in self.ordered(dom):
                self.iterations += 1
                e2 = dict(env)
                self.bind(b[2][0], x, e2)
                self.imperative(kids, k + 1, e2, out)
        elif b[0] == 'ASSIGN':
            v = self.ev(b[2][1], env)
            e2 = dict(env)
            self.bind(b[2][0], v, e2)
            self.imperative(kids, k + 1, e2, out)
        else:
            if self.ev(b, env):
                self.imperative(kids, k + 1, env, out)


def evaluate(tree, ctx, strict=True, **kw):
    """returns ('value', v) | ('bottom', kind) | ('budget', None)"""
    ev = Evaluator(ctx, strict=strict, **kw)
    try:
        return ('value', ev.ev(tree, {}))
    except Bottom as b:
        return ('bottom', b.kind)
    except Budget:
        return ('budget', None)
    except RecursionError:
        return ('budget', None)
