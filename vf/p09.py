"""C09 — identity and ordering invariants of a schema hold after any edit history."""
import re

from . import core
from . import formgen as fg

PROP = 'C09'
RULE = ('seeded histories of 10-60 RSForm operations with collisions turned up (InsertCopy of records single/bulk with '
        'taken uids, taken/ill-formed/wrong-letter aliases and members colliding with each other, InsertCopy from another '
        'schema, erase then re-insert, SetAliasFor to taken/ill-formed/own names, MoveBefore to every position incl. '
        'begin/end, Track/StopTracking, ResetAliases, MergeWith, DeleteDuplicates); after EVERY operation a structural-'
        'invariant monitor checks the snapshot: unique uids, unique well-formed aliases with the letter of their kind, '
        'list = permutation of the constituents with base < constant < structure < derived, all five views (list, formal '
        'part, texts, tracking, dependency graph) agree, an erased constituent is gone everywhere, a refused operation '
        'leaves the snapshot unchanged, tracked constituents refuse Erase and SetExpressionFor. Distinct = hash of the '
        'script; non-trivial = history contains >= 3 successful and >= 1 refused operation.')
ASSUMPTIONS = ['invariants are evaluated at quiescent points (after each public call) on values read through the public API',
               'SetExpressionFor returning false may still store a new TEXT with an identical syntax tree (documented minor change); '
               'every other difference after a refused call is a violation']
MIN_JUDGED = {'quick': 3000, 'thorough': 60000}
NSH = 32
LETTER = fg.LETTER
PRIORITY = {'basic': 4, 'constant': 3, 'structure': 2}
WEIGHTS = {'insertcopy_rec': 16, 'insertcopy_bulk_rec': 9, 'setalias': 16, 'erase': 14, 'move': 14, 'track': 7, 'stoptrack': 2, 'resetaliases': 5,
           'merge': 3, 'dedup': 3, 'setexpr': 10, 'emplace': 12, 'insertcopy_from': 5, 'insertcopy_bulk_from': 4, 'setterm': 2, 'setdef': 1, 'setconv': 1,
           'settermform': 1, 'updatestate': 1}


def shards(tier, seed):
    return [{'i': i} for i in range(NSH)]


def history(rnd, hist_id, length):
    ops = [{'op': 'env.processor', 'mode': 'default'}, {'op': 'form.seed', 'seed': hist_id}]
    ops += fg.seed_ops(rnd, 'b', n_base=2, n_derived=3)
    pre = fg.seed_ops(rnd, 'a', n_base=rnd.choice([0, 1, 2, 3]), n_derived=rnd.choice([0, 2, 5]))
    for o in pre:
        o['snap'] = True
    ops += pre
    for _ in range(length):
        span = rnd.choice([4, 8, 12])
        batch = fg.motif(rnd, 'a', span) if rnd.random() < 0.06 else [fg.edit_op(rnd, 'a', span=span, other='b', weights=WEIGHTS)]
        for op in batch:
            op['snap'] = True
            ops.append(op)
    return core.case(ops, kind='history')


def invariants(snap):
    bad = []
    items = snap['items']
    uids = sorted(int(u) for u in items)
    if sorted(snap['list']) != uids or len(set(snap['list'])) != len(snap['list']):
        bad.append(('list-not-permutation', f"list {snap['list']} vs constituents {uids}"))
    for view in ('core', 'texts', 'rslang'):
        if sorted(snap[view]) != uids:
            bad.append((f'view-{view}', f"{view} view {sorted(snap[view])} vs constituents {uids}"))
    if snap.get('gone_tracked'):
        bad.append(('erased-still-tracked', f"erased constituents {snap['gone_tracked']} are still in the tracking view"))
    if snap['graph_items'] != len(uids):
        bad.append(('view-graph', f"dependency graph has {snap['graph_items']} items, schema has {len(uids)}"))
    aliases = {}
    for u, it in items.items():
        a = it['alias']
        if a in aliases:
            bad.append(('alias-duplicate', f'alias {a!r} used by {aliases[a]} and {u}'))
        aliases[a] = u
        if not isinstance(a, str) or not re.fullmatch(r'[XCSADFTP][0-9]+', a):
            bad.append(('alias-malformed', f'{u} has alias {a!r}'))
        elif a[0] != LETTER[it['type']]:
            bad.append(('alias-letter', f"{u} of kind {it['type']} has alias {a!r}"))
        if it['talias'] != a:
            bad.append(('alias-text-part', f"{u}: formal alias {a!r} but text alias {it['talias']!r}"))
        if it['findalias'] != int(u):
            bad.append(('findalias', f"FindAlias({a!r}) = {it['findalias']} for constituent {u}"))
        if not it['in_graph']:
            bad.append(('view-graph', f'{u} missing in the dependency graph'))
        for i in it['inputs']:
            if str(i) not in items:
                bad.append(('dangling-edge', f'{u} depends on non-existing {i}'))
    prios = [PRIORITY.get(items[str(u)]['type'], 1) for u in snap['list'] if str(u) in items]
    if any(x < y for x, y in zip(prios, prios[1:])):
        bad.append(('kind-order', f"list kinds {[items[str(u)]['type'] for u in snap['list']]}"))
    return bad


REFUSABLE = {'erase', 'setalias', 'setexpr', 'move', 'setterm', 'settermform', 'setdef', 'setconv', 'equate'}


def judge(res, cs, cr):
    if not core.std_death_checks(res, PROP, cs, cr):
        return
    prev = None
    ok_ops = refused = 0
    trace = []
    for idx, (op, ev) in enumerate(zip(cs['ops'], cr.events)):
        if op['op'] != 'form.op' or op['f'] != 'a' or 'snap' not in ev:
            continue
        k = op['k']
        trace.append({x: y for x, y in op.items() if x not in ('op', 'f', 'snap')})
        res.cover('op:' + k)
        snap = ev['snap']
        comparable = {x: y for x, y in snap.items() if x not in ('corehash', 'fullhash')}
        bad = invariants(snap)
        ret = ev.get('ret')
        args = ev.get('args') or {}
        if prev is not None:
            if k in REFUSABLE and (ret is False or ret is None):
                refused += 1
                if k == 'setexpr' and comparable != prev and isinstance(args, dict) and str(args.get('uid')) in comparable['items'] \
                        and str(args.get('uid')) in prev['items']:
                    # documented 'minor change': a new text with an identical syntax tree is stored but reported as
                    # "no change" (upstream test SetDefinitionMinorChange); only the text of the target may differ
                    import copy
                    tgt = str(args['uid'])
                    patched = copy.deepcopy(comparable)
                    patched['items'][tgt]['def'] = prev['items'][tgt]['def']
                    if patched == prev:
                        comparable_for_check = prev
                    else:
                        comparable_for_check = comparable
                else:
                    comparable_for_check = comparable
                if comparable_for_check != prev:
                    bad.append((f'refused-changed:{k}', f'{k}{args} was refused (returned {ret}) but the schema changed'))
            elif ret not in (False, None):
                ok_ops += 1
            target = str(args.get('uid')) if isinstance(args, dict) and 'uid' in args else None
            if k == 'erase' and ret is True:
                if target in snap['items'] or int(target) in snap['list']:
                    bad.append(('erased-still-present', f'erased {target} is still visible'))
            if target is not None and target in prev['items'] and prev['items'][target].get('track') is not None:
                if k in ('erase', 'setexpr') and ret is True:
                    bad.append((f'tracked-{k}', f'{k} succeeded on tracked (inherited) constituent {target}'))
            if k in ('emplace', 'insertcopy_rec') and isinstance(ret, int):
                if str(ret) in prev['items']:
                    bad.append(('uid-reused', f'{k} returned the uid {ret} of an existing constituent'))
                if str(ret) not in snap['items']:
                    bad.append(('insert-missing', f'{k} returned {ret} which is not in the schema'))
            if k in ('insertcopy_bulk_rec', 'insertcopy_bulk_from') and isinstance(ret, list):
                if len(set(ret)) != len(ret) or any(str(u) in prev['items'] for u in ret) or any(str(u) not in snap['items'] for u in ret):
                    bad.append(('bulk-insert-uids', f'{k} returned {ret}'))
        res.count('judged', 8 + 6 * len(snap['items']))
        res.count('snapshots')
        if bad:
            what, msg = bad[0]
            res.violation(f'{PROP}/invariant/{what}', f"after {trace[-1]} -> args {args} ret {ret}: {msg}; aliases "
                          f"{ {u: (it['alias'], it['type']) for u, it in snap['items'].items()} }; history {trace[-5:]}",
                          {'ops': cs['ops'][:idx + 1], 'meta': {'kind': 'history'}})
            break
        prev = comparable
    res.judged(repr(cs['ops']), nontrivial=ok_ops >= 3 and refused >= 1)
    res.counters['judged'] -= 1
    res.count('histories')
    if ok_ops >= 5:
        res.sample({'ops': trace[:8], 'length': len(trace), 'refused': refused}, limit=1)


def run_shard(desc, env):
    res = core.ShardResult()
    rnd = env.rng('c09', desc['i'])
    n = 20 if env.tier == 'quick' else 500
    cases = [history(rnd, desc['i'] * 100000 + k, rnd.randint(10, 60)) for k in range(n)]
    for cs, cr in env.execute(cases, chunk=10):
        judge(res, cs, cr)
    return res


def replay(cs, env):
    res = core.ShardResult()
    for c, cr in env.execute([cs]):
        judge(res, c, cr)
    return res
