// Shared helpers for rslang ops
#pragma once
#include "drv.h"

#include "ccl/rslang/SyntaxTree.h"
#include "ccl/rslang/ErrorLogger.h"
#include "ccl/rslang/TypeContext.hpp"

namespace drv {
const char* TokenName(ccl::rslang::TokenID id);
json TreeJ(ccl::rslang::SyntaxTree::Cursor cur, long& budget);
json TreeJ(const ccl::rslang::SyntaxTree& tree);
json ErrorsJ(const ccl::rslang::ErrorLogger& log);
ccl::rslang::Syntax SyntaxOf(const json& a, const char* key = "syntax");
const char* SyntaxName(ccl::rslang::Syntax s);
json TypeJ(const ccl::rslang::ExpressionType& type);
}  // namespace drv
