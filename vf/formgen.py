"""Generator of RSForm / RSModel editing histories with state-relative arguments (shared by C07-C13, C10, C11).

Scripts are static (replayable): constituents are addressed by their CURRENT position in the list ({"idx": n}),
texts mention them through placeholders ($[n] = alias of the n-th constituent, $def[n] = its definition, $self).
"""

SET_DEFS = ['$[%d]', '$[%d]∪$[%d]', '$[%d]\\$[%d]', '$[%d]∩$[%d]', 'ℬ($[%d])', '$[%d]×$[%d]', 'Pr1($[%d])', 'Pr2($[%d])', 'red($[%d])',
            'D{x∈$[%d] | x∈$[%d]}', 'D{x∈$[%d] | ∃y∈$[%d] (x,y)∈$[%d]}', 'I{(a,b) | a:∈$[%d]; b:∈$[%d]}', 'card($[%d])', 'debool($[%d])',
            '{$[%d]}', 'bool($[%d])', '$[%d]∪$[%d]∪$[%d]', 'D{x∈$[%d] | x=x}', 'Pr1($[%d])∪Pr2($[%d])', '$[%d]×$[%d]×$[%d]', 'pr1(debool($[%d]))',
            'Fi1[$[%d]]($[%d])', 'R{x:=$[%d] | x∪$[%d]}', 'ℬ($[%d]×$[%d])', 'ℬℬ($[%d])', 'ℬ($[%d]×ℬ($[%d]))', '$[%d][$[%d]]', '$[%d][$[%d], $[%d]]', '$[%d][ℬ($[%d])]']
LOGIC_DEFS = ['∀x∈$[%d] x∈$[%d]', '$[%d]=$[%d]', '$[%d]⊆$[%d]', '$[%d]≠∅', '∃x∈$[%d] x∉$[%d]', 'card($[%d])>card($[%d])', '$[%d][$[%d]]', '1=1']
FUNC_DEFS = ['[a∈ℬℬ($[%d])] a∩{$[%d]}', '[a∈ℬℬ($[%d])] a∪{$[%d]}', '[a∈ℬ($[%d])] a∪$[%d]', '[a∈ℬ(R1)] a∪a', '[a∈$[%d], b∈ℬ($[%d])] {a}∪b', '[a∈ℬ(R1), b∈ℬ(R2)] a×b', '[a∈ℬ($[%d])] D{x∈a | x∈$[%d]}', '[a∈ℬ($[%d])] $[%d][a]']
PRED_DEFS = ['[a∈$[%d], b∈ℬ($[%d])] a∈b', '[a∈ℬ($[%d])] a⊆$[%d]', '[a∈ℬ(R1)] a=a']
BAD_DEFS = ['$[%d]∪', '((', '$[%d] $[%d]', 'X77∪$[%d]', '$self∪$[%d]', '$self', '∀x∈$[%d] x∈', 'D{x∈$[%d] |', 'Pr0($[%d])', '$[%d]∪1', 'card($[%d])∪$[%d]', '$[%d]=', 'x∈$[%d]',
            '$[%d] \\union $[%d]', 'A77', 'F77[$[%d]]', '$def[%d]', '$def[%d]', '$def[%d] ', '($def[%d])']
TEXTS = ['термин', '', 'term $[%d]', '@{$[%d]|nomn,sing} от @{$[%d]|plur,gent}', '@{$self|nomn}', '@{X77|nomn}', '@{-1|зависимый} @{$[%d]|datv}', 'a€b @{$[%d]|sing,ablt}',
         '@{$[%d]|nomn}@{$[%d]|nomn}', 'X1 упоминается без ссылки', '@{$[%d]|nomn|sing}', 'сломанная @{$[%d]|nomn', '@{$[%d]|plur,gent} и ещё @{1|часть}']


# term texts carry at most one reference: a term on a reference cycle that mentions the cycle twice doubles its resolved
# text on every update (unbounded growth outside the acyclic case the properties talk about)
TERM_TEXTS = ['термин', '', 'term $[%d]', 'часть @{$[%d]|plur,gent}', '@{$self|nomn}', '@{X77|nomn}', 'a€b @{$[%d]|sing,ablt}', 'X1 упоминается без ссылки',
              '@{$[%d]|nomn|sing}', 'сломанная @{$[%d]|nomn', '@{$[%d]|plur,gent} и ещё @{1|часть}', '@{-1|зависимый} @{$[%d]|datv}']


# names that usually do not exist yet: definitions mention them as dangling references, renames and insertions introduce them later
DANGLING = ['X7', 'X8', 'D7', 'D8', 'S7', 'F7', 'C7', 'P7']


def fill(rnd, template, span=12, dangling=0.06):
    n = template.count('%d')
    if n == 0:
        return template
    span = max(span, 1)
    if n and rnd.random() < dangling:
        # one mention replaced by a name that is (probably) not in the schema
        at = rnd.randrange(n)
        parts = template.split('$[%d]')
        if len(parts) == n + 1:
            template = '$[%d]'.join(parts[:at + 1]) + rnd.choice(DANGLING[:6]) + '$[%d]'.join(parts[at + 1:])
            n -= 1
    return template % tuple(rnd.randrange(span) for _ in range(n))


def definition(rnd, ctype, bad=0.2, span=12):
    if ctype in ('basic', 'constant'):
        return '' if rnd.random() > bad * 0.5 else fill(rnd, rnd.choice(SET_DEFS), span)
    if rnd.random() < bad:
        return fill(rnd, rnd.choice(BAD_DEFS + ['']), span)
    if ctype == 'structure':
        return fill(rnd, rnd.choice(['ℬ($[%d]×$[%d])', 'ℬ($[%d])', 'ℬℬ($[%d])', 'ℬ($[%d]×ℬ($[%d]))', '$[%d]×$[%d]', 'ℬ($[%d]×$[%d]×$[%d])', 'ℬ(Z×$[%d])']), max(min(span, 4), 1))
    if ctype == 'term':
        return fill(rnd, rnd.choice(SET_DEFS), span)
    if ctype in ('axiom', 'theorem'):
        return fill(rnd, rnd.choice(LOGIC_DEFS), span)
    if ctype == 'function':
        return fill(rnd, rnd.choice(FUNC_DEFS), span)
    return fill(rnd, rnd.choice(PRED_DEFS), span)


CTYPES = ['basic', 'basic', 'constant', 'structure', 'structure', 'term', 'term', 'term', 'term', 'function', 'axiom', 'theorem', 'predicate']
LETTER = {'basic': 'X', 'constant': 'C', 'structure': 'S', 'axiom': 'A', 'term': 'D', 'function': 'F', 'theorem': 'T', 'predicate': 'P'}


def uid_arg(rnd, span=12, gone=0.08, foreign=0.04):
    r = rnd.random()
    if r < gone:
        return {'gone': rnd.randrange(6)}
    if r < gone + foreign:
        return rnd.choice([0, 1, 5, 424242, 2147483647])
    return {'idx': rnd.randrange(span)}


def record(rnd, span=12):
    ctype = rnd.choice(CTYPES)
    r = rnd.random()
    if r < 0.1:
        alias = rnd.choice(DANGLING)
    elif r < 0.45:
        alias = LETTER[ctype] + str(rnd.randint(1, 15))
    elif r < 0.7:
        alias = '$[%d]' % rnd.randrange(span)          # taken alias
    elif r < 0.85:
        alias = rnd.choice('XCSADFTP') + str(rnd.randint(1, 9))   # maybe wrong letter
    else:
        alias = rnd.choice(['bad', 'x1', 'X', '', 'X1a', 'Д1', 'X01', 'D-1'])
    uid = {'idx': rnd.randrange(span)} if rnd.random() < 0.3 else rnd.choice([1, 2, 3, 7, 100, 1000, rnd.randint(1, 2 ** 31 - 1)])
    rec = {'uid': uid, 'alias': alias, 'type': ctype, 'rs': definition(rnd, ctype, span=span), 'conv': rnd.choice(['', 'соглашение $[%d]' % rnd.randrange(span)]),
           'term': fill(rnd, rnd.choice(TERM_TEXTS), span), 'text': fill(rnd, rnd.choice(TEXTS), span)}
    if rnd.random() < 0.2:
        rec['forms'] = {'sing,datv': 'ручная форма', 'plur,gent': ''} if rnd.random() < 0.5 else {'sing,datv': 'форма'}
    return rec


def seed_ops(rnd, f='a', n_base=2, n_derived=5):
    """a sensible starting schema: base sets, a structure, a few terms"""
    ops = [{'op': 'form.op', 'f': f, 'k': 'new'}]
    for _ in range(n_base):
        ops.append({'op': 'form.op', 'f': f, 'k': 'emplace', 'type': 'basic'})
    if rnd.random() < 0.5:
        ops.append({'op': 'form.op', 'f': f, 'k': 'emplace', 'type': 'constant'})
    ops.append({'op': 'form.op', 'f': f, 'k': 'emplace', 'type': 'structure', 'def': fill(rnd, 'ℬ($[%d]×$[%d])', n_base)})
    if rnd.random() < 0.5:
        ops.append({'op': 'form.op', 'f': f, 'k': 'emplace', 'type': 'function', 'def': fill(rnd, rnd.choice(FUNC_DEFS[:4]), n_base)})
    for _ in range(n_derived):
        ctype = rnd.choice(['term', 'term', 'term', 'axiom', 'function', 'predicate', 'structure'])
        ops.append({'op': 'form.op', 'f': f, 'k': 'emplace', 'type': ctype, 'def': definition(rnd, ctype, bad=0.1, span=n_base + 3)})
    return ops


def edit_op(rnd, f='a', span=12, other=None, weights=None):
    """one random editing operation on form f"""
    w = {'emplace': 16, 'setexpr': 22, 'setalias': 9, 'setterm': 7, 'setdef': 5, 'settermform': 3, 'setconv': 3, 'erase': 8, 'move': 7,
         'insertcopy_rec': 6, 'insertcopy_bulk_rec': 3, 'resetaliases': 3, 'updatestate': 2, 'track': 3, 'stoptrack': 1, 'insertcopy_from': 2,
         'insertcopy_bulk_from': 1, 'merge': 0, 'dedup': 1}
    if weights:
        w.update(weights)
    if other is None:
        w['insertcopy_from'] = w['insertcopy_bulk_from'] = w['merge'] = 0
    kinds = list(w)
    k = rnd.choices(kinds, weights=[w[x] for x in kinds])[0]
    op = {'op': 'form.op', 'f': f, 'k': k}
    if k == 'emplace':
        ctype = rnd.choice(CTYPES)
        op['type'] = ctype
        op['def'] = definition(rnd, ctype, span=span)
    elif k == 'setexpr':
        op['uid'] = uid_arg(rnd, span)
        ctype = rnd.choice(CTYPES)
        r = rnd.random()
        if r < 0.12:
            op['text'] = '$def[%d]' % rnd.randrange(span)              # duplicate of another definition
        elif r < 0.2:
            op['text'] = rnd.choice(['$self', '$self∪$[%d]' % rnd.randrange(span), 'D{x∈$self | x=x}'])
        elif r < 0.28:
            op['text'] = rnd.choice(['($def[%d])' % rnd.randrange(span), '$def[%d] ' % rnd.randrange(span), ' $def[%d]' % rnd.randrange(span)])   # same tree, other text
        else:
            op['text'] = definition(rnd, ctype, span=span)
    elif k == 'setalias':
        op['uid'] = uid_arg(rnd, span)
        r = rnd.random()
        if r < 0.2:
            op['alias'] = rnd.choice(DANGLING)
        elif r < 0.35:
            op['alias'] = rnd.choice('XCSADFTP') + str(rnd.randint(1, 4))      # likely a name used (or left dangling) before
        elif r < 0.55:
            op['alias'] = rnd.choice('XCSADFTP') + str(rnd.randint(1, 30))
        elif r < 0.75:
            op['alias'] = '$[%d]' % rnd.randrange(span)
        elif r < 0.85:
            op['alias'] = '$self'
        else:
            op['alias'] = rnd.choice(['bad', 'x1', 'X', '', 'X1a', 'Д1', 'X1 ', 'D1∪X1'])
        op['subst'] = rnd.random() < 0.7
    elif k in ('setterm', 'setdef'):
        op['uid'] = uid_arg(rnd, span)
        op['text'] = fill(rnd, rnd.choice(TERM_TEXTS if k == 'setterm' else TEXTS), span)
    elif k == 'settermform':
        op['uid'] = uid_arg(rnd, span)
        op['text'] = rnd.choice(['форма', '', 'form'])
        op['tags'] = rnd.choice(['sing,datv', 'plur,gent', 'sing,nomn', 'foo'])
    elif k == 'setconv':
        op['uid'] = uid_arg(rnd, span)
        op['text'] = rnd.choice(['', 'соглашение', 'uses $[%d] and $[%d]' % (rnd.randrange(span), rnd.randrange(span))])
    elif k == 'erase':
        op['uid'] = uid_arg(rnd, span, gone=0.15)
    elif k == 'move':
        op['uid'] = uid_arg(rnd, span)
        r = rnd.random()
        op['before'] = None if r < 0.2 else ('begin' if r < 0.35 else uid_arg(rnd, span))
    elif k == 'insertcopy_rec':
        op['rec'] = record(rnd, span)
    elif k == 'insertcopy_bulk_rec':
        op['recs'] = [record(rnd, span) for _ in range(rnd.randint(1, 4))]
        if rnd.random() < 0.4 and len(op['recs']) >= 2:
            op['recs'][1]['uid'] = op['recs'][0]['uid']          # members colliding with each other
            if rnd.random() < 0.5:
                op['recs'][1]['alias'] = op['recs'][0]['alias']
    elif k == 'track':
        op['uid'] = uid_arg(rnd, span)
        op['flags'] = [rnd.random() < 0.5, False, False, False]
    elif k == 'stoptrack':
        op['uid'] = uid_arg(rnd, span)
    elif k == 'insertcopy_from':
        op['src'] = other
        op['uid'] = {'idx': rnd.randrange(span)}
    elif k == 'insertcopy_bulk_from':
        op['src'] = other
        op['uids'] = [{'idx': rnd.randrange(span)} for _ in range(rnd.randint(1, 4))]
    elif k == 'merge':
        op['src'] = other
    return op


def motif(rnd, f='a', span=12):
    """short directed sequences aimed at incremental-update corner cases (each step is an ordinary editing operation)"""
    k = rnd.choice(['introduce', 'there-and-back', 'swap', 'chain-edit', 'erase-recreate', 'func-body-edit', 'index-edit', 'func-retype', 'text-ref-erase', 'tracked-duplicate', 'shared-formal', 'manual-form', 'track-equate', 'refused-rename'])
    i, j, t = rnd.randrange(span), rnd.randrange(span), rnd.randrange(span)
    name = rnd.choice(DANGLING[:6])
    mk = lambda **kw: dict({'op': 'form.op', 'f': f}, **kw)
    if k == 'manual-form':
        # a term that resolves through a reference carries a manual word form used by another text; then the reference is
        # replaced by literal text that reads the same (the manual forms go, the nominal text stays)
        tags = rnd.choice(['plur,nomn', 'sing,gent', 'plur,datv'])
        return [mk(k='emplace', type='term', **{'def': '$[0]\\$[0]'}),
                mk(k='setterm', uid={'made': -1}, text=rnd.choice(['человек', 'кот'])),
                mk(k='emplace', type='term', **{'def': '$[0]∪$[0]'}),
                mk(k='setterm', uid={'made': -1}, text='@{$made[-2]|sing,nomn}'),
                mk(k='settermform', uid={'made': -1}, text='люди', tags=tags),
                mk(k='emplace', type='term', **{'def': '$[0]∩$[0]'}),
                mk(k='setdef', uid={'made': -1}, text='все @{$made[-2]|%s} кроме @{$made[-2]|sing,nomn}' % tags),
                mk(k='setterm', uid={'made': -2}, text='$nom[-2]'),
                mk(k='setterm', uid={'made': -3}, text=rnd.choice(['зверь', 'человек']))]
    if k == 'track-equate':
        # a tracked constituent disappears through an equation (not through Erase); its identifier comes back with a copy
        rec = {'uid': {'gone': -1}, 'alias': 'D9', 'type': 'term', 'rs': '$[0]', 'conv': '', 'term': '', 'text': ''}
        d = rnd.choice(['$[0]\\$[0]', 'ℬ($[0])'])
        return [mk(k='emplace', type='term', **{'def': d}),
                mk(k='emplace', type='term', **{'def': d}),
                mk(k='track', uid={'made': -1}, flags=[rnd.random() < 0.5, False, False, False]),
                mk(k='equate', pairs=[[{'made': -1}, {'made': -2}] + rnd.choice([[], ['keepDel']])]),
                mk(k='insertcopy_rec', rec=rec),
                mk(k='setexpr', uid={'idx': -1}, text='$[0]∪$[0]'),
                mk(k='erase', uid={'idx': -1})]
    if k == 'refused-rename':
        # renames that are refused (name taken / wrong kind letter / ill-formed), then operations that draw on the name registry
        return [mk(k='setalias', uid={'idx': i}, alias='$[%d]' % j, subst=rnd.random() < 0.5),
                mk(k='setalias', uid={'idx': i}, alias=rnd.choice(['Q1', 'x', '$[%d]' % t]), subst=True),
                mk(k='emplace', type=rnd.choice(['basic', 'term', 'structure', 'axiom']), **{'def': ''}),
                mk(k='setalias', uid={'idx': j}, alias='$[%d]' % i, subst=True),
                mk(k='emplace', type='term', **{'def': '$[%d]∪$[%d]' % (i, j)})]
    if k == 'shared-formal':
        # two functions share a formal name: one call binds it to a property, a later call of the other binds it to a value
        return [mk(k='emplace', type='function', **{'def': '[α∈ℬℬ($[0])] α\\α'}),
                mk(k='emplace', type='function', **{'def': '[α∈ℬ($[0]), β∈ℬℬ($[0])] {α}∩β'}),
                mk(k='emplace', type='term', **{'def': '$[-2][ℬ($[0])]'}),
                mk(k='setexpr', uid={'idx': -1}, text=rnd.choice(['$[0]', 'ℬ($[0])'])),
                mk(k='emplace', type='term', **{'def': '$[-2][$[0], ℬ($[0])]'}),
                mk(k='emplace', type='axiom', **{'def': 'card($[-1])≥0'})]
    if k == 'tracked-duplicate':
        # two identical constituents, the later one tracked; duplicate elimination removes it; its identifier comes back
        d = rnd.choice(['$[0]\\$[0]', 'ℬ($[0])', '$[0]∪$[%d]' % j])
        rec = {'uid': {'gone': -1}, 'alias': 'D9', 'type': 'term', 'rs': '$[0]', 'conv': '', 'term': '', 'text': ''}
        return [mk(k='emplace', type='term', **{'def': d}),
                mk(k='emplace', type='term', **{'def': d}),
                mk(k='track', uid={'idx': -1}, flags=[rnd.random() < 0.5, False, False, False]),
                mk(k='dedup'),
                mk(k='insertcopy_rec', rec=rec),
                mk(k='setexpr', uid={'idx': -1}, text='$[0]∪$[0]'),
                mk(k='erase', uid={'idx': -1})]
    if k == 'func-retype':
        # a function is redefined with the same arity but another argument type while constituents call it
        return [mk(k='emplace', type='function', **{'def': '[α∈ℬ($[0])] α∪α'}),
                mk(k='emplace', type='term', **{'def': '$[-1][$[0]]'}),
                mk(k='setexpr', uid={'idx': -2}, text='[α∈ℬ($[0]×$[0])] Pr1(α)'),
                mk(k='emplace', type='term', **{'def': '$[-3][$[0]×$[0]]'}),
                mk(k='setexpr', uid={'idx': -3}, text=rnd.choice(['[α∈ℬ($[0])] α∪α', '[α∈ℬℬ($[0])] red(α)', '[α∈$[0]] {α}']))]
    if k == 'text-ref-erase':
        # a text definition refers to another constituent; the referring constituent is erased after the reference graphs were
        # used, then the referred term changes again
        return [mk(k='emplace', type='term', **{'def': '$[0]\\$[0]'}),
                mk(k='setdef', uid={'idx': -1}, text='определение через @{$[%d]|nomn,sing}' % i),
                mk(k='setterm', uid={'idx': i}, text=rnd.choice(['кот', 'множество'])),
                mk(k='erase', uid={'idx': -1}),
                mk(k='setterm', uid={'idx': i}, text=rnd.choice(['пёс', 'большой @{$[%d]|nomn,sing}' % j])),
                mk(k='setterm', uid={'idx': j}, text='иной')]
    if k == 'index-edit':
        # edits that change nothing but an index of a projection / filter (same tree shape, same operands)
        forms = ['Pr1($[0]×$[%d])', 'Pr2($[0]×$[%d])', 'Pr2,1($[0]×$[%d])', 'Pr1,2($[0]×$[%d])', 'D{ξ∈$[0]×$[%d] | pr1(ξ)=pr1(ξ)}', 'D{ξ∈$[0]×$[%d] | pr2(ξ)=pr1(ξ)}',
                 'Fi1[$[0]]($[0]×$[%d])', 'Fi2[$[0]]($[0]×$[%d])']
        a, b, c = [f % j for f in rnd.sample(forms, 3)]
        return [mk(k='emplace', type='term', **{'def': a}),
                mk(k='emplace', type='term', **{'def': 'card($[-1])'}),
                mk(k='setexpr', uid={'idx': -2}, text=b),
                mk(k='setexpr', uid={'idx': -2}, text=c)]
    if k == 'func-body-edit':
        # a function keeps its type, arguments and value class while its body changes; dependants call it with a PROPERTY
        # argument (their value class is derived from the callee's stored syntax tree)
        bodies = ['[α∈ℬℬ($[0])] α∩{$[0]}', '[α∈ℬℬ($[0])] α∪{$[0]}', '[α∈ℬℬ($[0])] α\\{$[0]}', '[α∈ℬℬ($[0])] {$[0]}∪α', '[α∈ℬℬ($[0])] α']
        first, second, third = rnd.sample(bodies, 3)
        return [mk(k='emplace', type='function', **{'def': first}),
                mk(k='emplace', type='term', **{'def': '$[-1][ℬ($[0])]'}),
                mk(k='emplace', type='term', **{'def': '$[-1]\\$[-1]'}),
                mk(k='emplace', type='axiom', **{'def': 'card($[-2])=1'}),
                mk(k='setexpr', uid={'idx': -4}, text=second),
                mk(k='setexpr', uid={'idx': -4}, text=third)]
    if k == 'introduce':
        # a definition (and its dependant) mention a name that only appears later through a rename without substitution
        return [mk(k='setexpr', uid={'idx': i}, text=rnd.choice([name + '∪' + name, name + '×$[%d]' % j, 'ℬ(' + name + ')', name + '\\$[%d]' % j])),
                mk(k='emplace', type='term', **{'def': rnd.choice(['$[%d]×$[%d]' % (i, j), 'ℬ($[%d])' % i, 'red($[%d])' % i])}),
                mk(k='setalias', uid={'idx': t}, alias=name, subst=False),
                mk(k='setalias', uid={'idx': t}, alias=rnd.choice('XDS') + str(rnd.randint(20, 29)), subst=rnd.random() < 0.5)]
    if k == 'there-and-back':
        back = '$[%d]' % t
        return [mk(k='setalias', uid={'idx': t}, alias=name, subst=False),
                mk(k='setalias', uid={'idx': t}, alias=rnd.choice('XDS') + str(rnd.randint(1, 3)), subst=False),
                mk(k='setalias', uid={'idx': t}, alias=name, subst=rnd.random() < 0.5)]
    if k == 'swap':
        # two constituents exchange names through a temporary one
        return [mk(k='setalias', uid={'idx': i}, alias='D30', subst=False),
                mk(k='setalias', uid={'idx': j}, alias=rnd.choice(['X1', 'D1', 'S1', 'X2']), subst=False),
                mk(k='setalias', uid={'idx': i}, alias=rnd.choice(['X1', 'D1', 'S1', 'X2', 'D2']), subst=False)]
    if k == 'chain-edit':
        # a chain of dependants, then the root changes type / breaks / heals
        return [mk(k='emplace', type='term', **{'def': 'ℬ($[%d])' % i}),
                mk(k='emplace', type='term', **{'def': 'Pr1($[%d])∪$[%d]' % (span, i)}),
                mk(k='setexpr', uid={'idx': i}, text=rnd.choice(['$[%d]×$[%d]' % (j, j), '((', '', '$[%d]' % j])),
                mk(k='setexpr', uid={'idx': i}, text=rnd.choice(['ℬ($[%d]×$[%d])' % (j, j), '$[%d]×$[%d]' % (j, t), '$[%d]' % t]))]
    return [mk(k='erase', uid={'idx': i}),
            mk(k='emplace', type=rnd.choice(['term', 'basic', 'structure']), **{'def': rnd.choice(['', 'ℬ($[%d])' % j, '$[%d]∪$[%d]' % (j, t)])}),
            mk(k='setalias', uid={'idx': span}, alias=rnd.choice(['X1', 'D1', 'S1', 'X2', 'D2', 'D3']), subst=False)]
