#!/usr/bin/env python3
"""Ad-hoc: run rs.check on expressions in the standard p03 context.  usage: tools/one.py 'expr' ..."""
import sys, json, os
sys.path.insert(0, os.path.dirname(os.path.dirname(os.path.abspath(__file__))))
from vf import core
import subprocess
drv = subprocess.run(['python3', os.path.join(os.path.dirname(__file__), 'build.py'), 'san'], capture_output=True, text=True).stdout.strip().splitlines()[-1]
ops = [{"op": "rs.ctx", "ctx": "c", "spec": {"types": {"X1": {"B": {"b": "X1"}}, "S1": {"B": {"t": [{"b": "X1"}, {"b": "X1"}]}}}, "funcs": {}, "traits": {}, "vclass": {"X1": "value", "S1": "value"}, "data": {}, "asts": {}}}]
for t in sys.argv[1:]:
    ops.append({"op": "rs.check", "ctx": "c", "text": t, "syntax": "ASCII" if '\\' in t else "MATH"})
res = core.run_driver(drv, [core.case(ops)])
for cr in res:
    for ev in cr.events:
        print(json.dumps(ev, ensure_ascii=False)[:900])
    if getattr(cr, 'death', None): print('DEATH', str(cr.death)[:600])
