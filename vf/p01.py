"""C01 — evaluation returns the set-theoretic value of every well-typed expression."""
from . import core
from . import evalcommon as ec
from . import rsgen as rg
from . import rstypes as rt
from . import rseval as re_
from . import sdmodel as sm

PROP = 'C01'
RULE = ('seeded random contexts with interpretations (base sets of 0-4 elements quick / 0-8 thorough, integer-like '
        'constant sets, structures and terms with generated compatible data, generated term-functions incl. templated '
        'ones and predicates); type-directed expressions accepted by the reference typing rules are evaluated by the '
        'real Interpreter in MATH text, ASCII text, with redundant parentheses, wrapped as debool({e}), and re-built '
        'through a declarative and an imperative copy of the set; every result is compared with the strict reference '
        'evaluator of vf/rseval.py (frozenset/tuple/int/bool semantics, quantifiers and builders by enumeration, calls '
        'by substitution, tuple binders by projection). Distinct = hash of (context data, text); non-trivial = the '
        'expression has >= 3 operators and its reference value is not an empty set.')
ASSUMPTIONS = [
    'vf/rseval.py is the statement of the semantics (DESIGN.md appendix B); vf/rstypes.py decides what is well-typed',
    'if the strict reference evaluation meets a documented runtime error (debool of a non-singleton, iteration over Z, '
    'resource limits) the library may fail with a documented error or return the value of the short-circuit '
    'evaluation; other outcomes are violations; cases where neither reference evaluation yields a value are unspecified',
    'arithmetic results outside int32 are unspecified here (the undefined behaviour itself is C02 material)',
]
MIN_JUDGED = {'quick': 3000, 'thorough': 60000}
NSH = 32


def shards(tier, seed):
    return [{'i': i} for i in range(NSH)]


def show_val(v):
    return str(v) if isinstance(v, bool) else sm.show(v)


def judge(res, cs, cr):
    items = cs['meta']['items']
    ctx = ec.load_ctx(cs['meta']['ctx'])
    if cr.death is not None and cr.death['kind'] != 'harness':
        k = cr.death['op_index']
        res.count('deaths')
        res.violation(f"{PROP}/fault/{cr.death['key']}", cr.death['text'][-2500:],
                      ec.single_replay_case(cs, cs['ops'][k], items[k - 1]) if k >= 1 else cs)
    elif cr.death is not None:
        res.harness_error(cr.death['text'])
        return
    if cr.hang:
        res.count('inconclusive')   # bounded but expensive evaluation (iteration limits are documented): not a verdict
    base_ref = None
    for item, op, ev in zip(items, cs['ops'][1:], cr.events[1:]):
        if 'harness_error' in ev:
            res.harness_error(ev['harness_error'])
            continue
        tree = item['tree']
        text = item['text']
        if 'exc' in ev:
            res.violation(f"{PROP}/exception/{ev['exc']['type']}", f"{text!r}: {ev['exc']}", ec.single_replay_case(cs, op, item))
            continue
        tref = rt.check_expression(tree, ctx)
        if tref['status'] != 'ok' or not ec.is_evaluable(tree):
            res.count('not_welltyped_or_not_evaluable')
            continue
        strict = re_.evaluate(tree, ctx, strict=True)
        lib = ec.lib_value(ev)
        res.cover('variant:' + item['variant'])
        for o in rg.ops_in(tree):
            res.cover(o)
        bad = None
        if strict[0] == 'budget' or lib[0] == 'big':
            res.count('inconclusive')
            continue
        if strict[0] == 'value':
            exp = strict[1]
            if lib[0] == 'value':
                if type(lib[1]) != type(exp) or lib[1] != exp:
                    bad = ('wrong-value', f'evaluates to {show_val(lib[1])}, set-theoretic value is {show_val(exp)}')
            else:
                names = [ec.DOCUMENTED.get(e, hex(e)) for e in lib[1]]
                if names and set(names) <= {'iterationsLimit', 'booleanLimit', 'typedOverflow'} and re_.evaluate(tree, ctx, strict=True, max_steps=15000)[0] == 'budget':
                    # a documented resource limit on a workload that is heavy for the reference evaluator as well: not a verdict
                    res.count('inconclusive')
                    continue
                bad = ('fails-on-defined', f'evaluation fails with {names} although the value {show_val(exp)} is defined')
            res.count('judged')
            nontrivial = rg.count_nodes(tree) >= 5 and exp != frozenset()
            res.judged(repr(sorted(cs['meta']['ctx']['data'].items(), key=repr)) + text, nontrivial=nontrivial)
            res.counters['judged'] -= 1
            if nontrivial and item['base']:
                res.sample({'text': text, 'value': show_val(exp)[:200], 'data': {k: str(v if isinstance(v, bool) else sm.show(sm.from_obs(v)))[:80] for k, v in list(cs['meta']['ctx']['data'].items())[:5]}}, limit=1)
        else:
            kind = strict[1]
            if lib[0] == 'error':
                if any(e == ec.UNKNOWN_ERROR for e in lib[1]) or not lib[1] or any(e not in ec.DOCUMENTED for e in lib[1]):
                    bad = ('undocumented-failure', f'fails with {[hex(e) for e in lib[1]]} (reference: {kind})')
                res.count('judged')
                res.count('bottom_cases')
            else:
                if kind == 'int-overflow':
                    res.count('unspecified')
                else:
                    lazy = re_.evaluate(tree, ctx, strict=False)
                    if lazy[0] == 'value':
                        if type(lib[1]) != type(lazy[1]) or lib[1] != lazy[1]:
                            bad = ('wrong-value-partial', f'evaluates to {show_val(lib[1])}, short-circuit reference value is {show_val(lazy[1])} (strict: {kind})')
                        res.count('judged')
                    else:
                        res.count('unspecified')
        if bad:
            res.violation(f"{PROP}/eval/{bad[0]}:{item['variant']}", f"{item['syntax']} {text!r}: {bad[1]}; data "
                          f"{ {k: (v if isinstance(v, bool) else sm.show(sm.from_obs(v))) for k, v in cs['meta']['ctx']['data'].items()} }; "
                          f"functions { {k: v for k, v in cs['ops'][0]['spec']['asts'].items()} }", ec.single_replay_case(cs, op, item))


def run_shard(desc, env):
    res = core.ShardResult()
    rnd = env.rng('c01', desc['i'])
    nctx, per = (12, 14) if env.tier == 'quick' else (220, 16)
    cases = ec.build_cases(rnd, env.tier, nctx, per, big=(env.tier != 'quick'), mutants=0.0)
    if desc['i'] == 0:
        cases = ec.inlining_cases() + cases
    if desc['i'] == 1:
        cases = ec.lazy_sharing_cases() + cases
    for cs, cr in env.execute(cases, chunk=12):
        judge(res, cs, cr)
    return res


def replay(cs, env):
    res = core.ShardResult()
    for c, cr in env.execute([cs]):
        judge(res, c, cr)
    return res


RULE = RULE + ' Directed part: function inlining matrix; one lazily represented set (power set of 7, product of 11x11 elements) reached through one variable and traversed again inside its own traversal (builder / quantifier / imperative / cardinality bodies).'
