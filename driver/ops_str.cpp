// C20: ccl/Strings.hpp
#include "drv.h"

#include "ccl/Strings.hpp"

using drv::json;
using ccl::StrRange;

static StrRange RangeOf(const json& j) {
  return StrRange{ j.at(0).get<int32_t>(), j.at(1).get<int32_t>() };
}

static json RangeJ(const StrRange& r) { return json::array({ r.start, r.finish }); }

// Full observation of one string: length, iteration trace, iterator construction at positions,
// Substr for the given ranges. Views are reported as [byte offset, byte length] relative to the
// input buffer (or null when the view does not point into it / is a default view).
static json ViewJ(std::string_view base, std::string_view v) {
  if (v.data() == nullptr) {
    return json{ {"null", true}, {"len", v.size()} };
  }
  const auto off = v.data() - base.data();
  json out = json{ {"off", off}, {"len", v.size()} };
  return out;
}

DRV_OP(OpStrScan, "str.scan") {
  const std::string s = drv::GetBytes(a, "s");
  const std::string_view sv{ s };
  json out = json::object();
  out["cplen"] = ccl::SizeInCodePoints(sv);
  json trace = json::array();
  int guard = 0;
  for (auto it = ccl::UTF8Begin(sv); it != ccl::UTF8End(sv); ++it) {
    trace.push_back(json::array({ it.Position(), it.BytePosition(), it.SymbolSize(), static_cast<unsigned char>(*it) }));
    if (++guard > 100000) {
      out["runaway"] = true;
      break;
    }
  }
  out["trace"] = std::move(trace);
  if (a.contains("at")) {
    json ats = json::array();
    for (const auto& p : a["at"]) {
      const auto pos = p.get<int32_t>();
      const ccl::UTF8Iterator it{ sv, pos };
      ats.push_back(json::array({ it.Position(), it.BytePosition(), it == ccl::UTF8End(sv) }));
    }
    out["at"] = std::move(ats);
  }
  if (a.contains("ranges")) {
    json subs = json::array();
    for (const auto& r : a["ranges"]) {
      const auto sub = ccl::Substr(sv, RangeOf(r));
      subs.push_back(ViewJ(sv, sub));
    }
    out["substr"] = std::move(subs);
  }
  return out;
}

DRV_OP(OpStrSplit, "str.split") {
  const std::string s = drv::GetBytes(a, "s");
  const std::string d = a.value("delim", std::string{ "," });
  const std::string_view sv{ s };
  json out = json::array();
  const auto parts = a.contains("delim") ? ccl::SplitBySymbol(sv, d.at(0)) : ccl::SplitBySymbol(sv);
  for (const auto& p : parts) {
    out.push_back(ViewJ(sv, p));
  }
  return json{ {"parts", out} };
}

DRV_OP(OpStrTrim, "str.trim") {
  const std::string s = drv::GetBytes(a, "s");
  const std::string_view sv{ s };
  return json{ {"view", ViewJ(sv, ccl::TrimWhitespace(sv))}, {"isint", ccl::IsInteger(sv)} };
}

DRV_OP(OpCharSize, "str.charsize") {
  json out = json::array();
  for (int b = 0; b < 256; ++b) {
    out.push_back(ccl::UTF8CharSize(static_cast<unsigned char>(b)));
  }
  return json{ {"sizes", out} };
}

DRV_OP(OpRangePair, "range.pair") {
  const auto x = RangeOf(a.at("a"));
  const auto y = RangeOf(a.at("b"));
  json out = json::object();
  out["eq"] = x == y;
  out["ne"] = x != y;
  out["contains"] = x.Contains(y);
  out["shares"] = x.SharesBorder(y);
  out["before"] = x.IsBefore(y);
  out["after"] = x.IsAfter(y);
  out["meets"] = x.Meets(y);
  out["overlaps"] = x.Overlaps(y);
  out["starts"] = x.Starts(y);
  out["finishes"] = x.Finishes(y);
  out["during"] = x.IsDuring(y);
  const auto inter = x.Intersect(y);
  out["intersect"] = inter.has_value() ? RangeJ(*inter) : json{};
  out["merge"] = RangeJ(StrRange::Merge({ x, y }));
  return out;
}

DRV_OP(OpRangeOne, "range.one") {
  const auto x = RangeOf(a.at("a"));
  json out = json::object();
  out["length"] = x.length();
  out["empty"] = x.empty();
  json pts = json::array();
  for (const auto& p : a.at("points")) {
    pts.push_back(x.Contains(p.get<int32_t>()));
  }
  out["points"] = pts;
  const auto k = a.value("k", 0);
  out["fromlen"] = RangeJ(StrRange::FromLength(x.start, k));
  { auto c = x; out["setlen"] = RangeJ(c.SetLength(k)); }
  { auto c = x; out["shift"] = RangeJ(c.Shift(k)); }
  { auto c = x; out["cend"] = RangeJ(c.CollapseEnd()); }
  { auto c = x; out["cstart"] = RangeJ(c.CollapseStart()); }
  return out;
}

DRV_OP(OpRangeMerge, "range.merge") {
  std::vector<StrRange> v;
  for (const auto& r : a.at("list")) {
    v.push_back(RangeOf(r));
  }
  return json{ {"merge", RangeJ(StrRange::Merge(v))} };
}
