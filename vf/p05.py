"""C05 — printing then re-parsing an expression preserves its tree in both syntaxes."""
from . import core
from . import rsgen as rg
from . import rscommon as rc

PROP = 'C05'
RULE = ('every parseable input (systematic parent-constructor x child-constructor x operand-position matrix - the '
        'bracket-decision table -, associativity chains, every token kind, Greek local names, integer literals up to '
        '2^31-1, global declarations, function definitions, all recursion/imperative block kinds; plus seeded random '
        'trees of depth <= 6) is parsed by the real parser; Generator::FromTree in MATH and in ASCII is re-parsed in '
        'the same syntax and the dump is compared in Python with the first tree (ASCII: local names mapped through an '
        'independent copy of the Greek transliteration table) and by the library operator==; ConvertTo chains '
        '(there, back, there again) must preserve the tree and be stable. Distinct = hash of input text; non-trivial = '
        'tree has >= 4 nodes.')
ASSUMPTIONS = [
    'tree equality ignores positions; ASCII output is compared after transliterating Greek local names',
    '"conversion is idempotent" is read as: converting to syntax s, back, and to s again reproduces the first s-text '
    '(ConvertTo(x, s) assumes x is written in the other syntax, so applying it twice to the same text is not meaningful)',
    'the meaning-preservation of a there-and-back conversion is judged only when the transliteration is injective on '
    'the local names of the expression',
]
EXHAUSTIVE = ['parent constructor x child constructor x operand position matrix (bracket decisions), both syntaxes']
MIN_JUDGED = {'quick': 10000, 'thorough': 200000}
NSH = 32

PLAIN = dict(ws=0.0, nl=0.0, parens=0.0, short_decl=0.0)


def shards(tier, seed):
    return [{'kind': 'matrix', 'i': i} for i in range(NSH)] + [{'kind': 'random', 'i': i} for i in range(NSH)]


def gen_cases(desc, env):
    from .p06 import chains
    rnd = env.rng('c05', desc['kind'], desc['i'])
    cases = []

    def add(tree, syntax, label):
        cs = rc.parse_case(tree, syntax, rnd, rnd.choice([PLAIN, dict(ws=0.2, nl=0.1, parens=0.3, short_decl=0.3)]), label, gen=True)
        cs['ops'].append({'op': 'rs.convert', 'text': cs['ops'][0]['text'], 'from': syntax})
        cases.append(cs)

    if desc['kind'] == 'matrix':
        if desc['i'] == 0:
            # literal boundary inputs given as raw text (whatever the parser accepts is an input of the property)
            for k, txt in enumerate(['2147483647=1', '2147483648=1', 'X1:==4294967295', 'card(X1)<99999999999999999999',
                                     '{2147483648, 4294967296, 1}', '2147483649+1']):
                cases.append(core.case([{'op': 'rs.parse', 'text': txt, 'syntax': 'MATH', 'gen': True},
                                        {'op': 'rs.convert', 'text': txt, 'from': 'MATH'}],
                                       kind='parse', label='literal-boundary', syntax='MATH', tree=None, spans=None, text=txt))
        n = 0
        for label, tree in rc.matrix_trees() + chains():
            for syntax in ('MATH', 'ASCII'):
                if n % NSH == desc['i']:
                    add(tree, syntax, label)
                n += 1
    else:
        count = 200 if env.tier == 'quick' else 6000
        g = rg.SynGen(rnd)
        for _ in range(count):
            tree = g.expression(rnd.choice([2, 3, 3, 4, 4, 5, 6]))
            if rg.count_nodes(tree) > 160:
                continue
            add(tree, rnd.choice(['MATH', 'MATH', 'ASCII']), 'random')
    return cases


def locals_of(node, acc):
    if node[0] == 'ID_LOCAL':
        acc.add(node[1])
    for c in node[2]:
        locals_of(c, acc)
    return acc


def first_diff(a, b, path=''):
    if a[0] != b[0] or a[1] != b[1] or len(a[2]) != len(b[2]):
        return f"at {path or 'root'}: {a[0]}:{a[1]}/{len(a[2])} became {b[0]}:{b[1]}/{len(b[2])}"
    for k, (x, y) in enumerate(zip(a[2], b[2])):
        d = first_diff(x, y, f'{path}/{k}:{x[0]}')
        if d:
            return d
    return None


def judge(res, cs, cr):
    if not core.std_death_checks(res, PROP, cs, cr):
        return
    meta = cs['meta']
    ev, conv = cr.events[0], cr.events[1]
    text = meta['text']
    if not ev['ok']:
        res.count('unparsed_inputs')
        return
    tree0 = rg.from_dump(ev['tree'])
    bad = []
    names = locals_of(tree0, set())
    injective = len({rg.translit(n) for n in names}) == len(names)
    for target in ('MATH', 'ASCII'):
        g = ev['gen' + target]
        gtext = g['text'] if isinstance(g['text'], str) else '<bytes>'
        exp = tree0 if target == 'MATH' else rg.map_locals(tree0, rg.translit)
        if not g['ok']:
            bad.append((f'reparse-fails:{target}:{culprit(tree0)}', f"FromTree(.., {target}) = {gtext!r} does not parse: {g['errors']}"))
            continue
        tree1 = rg.from_dump(g['tree'])
        diff = first_diff(exp, tree1)
        if diff:
            bad.append((f'tree-changed:{target}:{culprit_pair(exp, tree1)}', f'FromTree(.., {target}) = {gtext!r} parses to a different tree: {diff}'))
        lib_eq_expected = (target == 'MATH') or not any(ch in rg.GREEK for n in names for ch in n)
        if not diff and lib_eq_expected and not g['eq']:
            bad.append((f'library-eq:{target}', f'library operator== says the re-parsed tree of {gtext!r} differs although the dumps are equal'))
        if not diff and g.get('regen') != g['text']:
            bad.append((f'regen-unstable:{target}', f"generator output not stable: {gtext!r} -> {g.get('regen')!r}"))
        res.count('judged', 3)
        res.cover('target:' + target)
    # conversion chain
    if conv['ok_in']:
        if conv['there_again'] != conv['there']:
            bad.append(('convert-not-idempotent', f"ConvertTo there={conv['there']!r} back={conv['back']!r} there-again={conv['there_again']!r}"))
        if not conv['ok_there']:
            pass   # already reported by reparse-fails
        elif injective:
            if not conv['ok_back']:
                bad.append(('convert-back-fails', f"back-converted text {conv['back']!r} does not parse"))
            else:
                src_syntax = meta['syntax']
                exp = tree0 if src_syntax == 'ASCII' else rg.map_locals(tree0, rg.translit)
                back = rg.from_dump(conv['tree_back'])
                diff = first_diff(exp, back)
                if diff:
                    bad.append(('convert-roundtrip', f"there-and-back conversion of {text!r} = {conv['back']!r}: {diff}"))
        else:
            res.count('unspecified')
        res.count('judged', 2)
    seen = set()
    for what, msg in bad:
        if what in seen:
            continue
        seen.add(what)
        res.violation(f'{PROP}/print/{what}', f"[{meta['label']}] input {meta['syntax']} {text!r}: {msg}", cs)
    for op_ in rg.ops_in(tree0):
        res.cover(op_)
    res.judged(meta['syntax'] + ':' + text, nontrivial=rg.count_nodes(tree0) >= 4)
    res.count('inputs')
    if rg.count_nodes(tree0) >= 8:
        res.sample({'label': meta['label'], 'input': text, 'math': ev['genMATH']['text'], 'ascii': ev['genASCII']['text']}, limit=1)


def culprit(tree):
    """coarse class of a failing print: the set of 'interesting' token kinds (stable key for known findings)"""
    ops = rg.ops_in(tree)
    for k in ('NT_RECURSIVE_FULL', 'NT_RECURSIVE_SHORT', 'LESSER', 'LIT_INTEGER'):
        if k in ops:
            return k
    return 'other'


def culprit_pair(exp, got):
    """(expected constructor / constructor found instead) at the first structural difference"""
    def walk(a, b):
        if a[0] != b[0] or len(a[2]) != len(b[2]):
            return f'{a[0]}/{b[0]}'
        for x, y in zip(a[2], b[2]):
            r = walk(x, y)
            if r:
                return r
        if a[1] != b[1]:
            return a[0] + '-data'
        return None
    return walk(exp, got) or 'data'


def run_shard(desc, env):
    res = core.ShardResult()
    for cs, cr in env.execute(gen_cases(desc, env), chunk=300):
        judge(res, cs, cr)
    return res


def replay(cs, env):
    res = core.ShardResult()
    for c, cr in env.execute([cs]):
        judge(res, c, cr)
    return res
