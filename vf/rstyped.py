"""Type-directed generation of RSLang contexts, expressions, near-miss mutants and data (C01-C03, C02 mutants)."""
from . import rsgen as rg
from . import rstypes as rt
from . import sdmodel as sm

N = rg.N
LOGIC = rt.LOGIC
Z = rt.Z


def S(t):
    return ('s', t)


def T(*ts):
    return ('t', tuple(ts))


def E(name):
    return ('e', name)


class Ctx:
    """generated context: python dict for the reference models + spec for the driver"""

    def __init__(self):
        self.types = {}
        self.funcs = {}
        self.traits = {}
        self.vclass = {}
        self.bodies = {}
        self.data = {}
        self.texts = {}      # function definition texts (MATH) for the driver's AST context
        self.bases = {}      # base name -> list of element ids

    def ref(self):
        return {'types': self.types, 'funcs': self.funcs, 'traits': self.traits, 'vclass': self.vclass,
                'bodies': self.bodies, 'data': self.data}

    def spec(self):
        return {
            'types': {k: rt.tspec(v) for k, v in self.types.items()},
            'funcs': {k: [[an, rt.tspec(at)] for an, at in v] for k, v in self.funcs.items()},
            'traits': dict(self.traits),
            'vclass': dict(self.vclass),
            'data': {k: sm.enum_spec(v) for k, v in self.data.items() if not isinstance(v, bool)},
            'asts': dict(self.texts),
        }


def add_function(ctx, name, fdef, logic=False):
    """register a hand-built function definition (NT_FUNC_DEFINITION tree) in a Ctx; returns False if the reference typing rules reject it"""
    tree = N('PUNC_DEFINE', None, [N('ID_PREDICATE' if logic else 'ID_FUNCTION', name), fdef])
    res = rt.check_expression(tree, ctx.ref())
    if res['status'] != 'ok':
        return False
    ctx.types[name] = res['type']
    ctx.funcs[name] = res['args']
    try:
        ctx.vclass[name] = rt.value_class(tree, ctx.ref())
    except rt.ClassErr:
        pass
    ctx.bodies[name] = tree
    ctx.texts[name] = rg.render(tree, 'MATH')[0]
    return True


def model_type(t):
    """rstypes type -> sdmodel type"""
    if t[0] == 'e':
        return ('e', t[1])
    if t[0] == 's':
        return ('s', model_type(t[1]))
    return ('t', tuple(model_type(c) for c in t[1]))


class DataGen(sm.Gen):
    """values whose elements are drawn from the interpretation of the right base set"""

    def __init__(self, rnd, bases, **kw):
        super().__init__(rnd, **kw)
        self.bases = bases

    def value(self, t, size_hint=None):
        if t[0] == 'e':
            pool = self.bases.get(t[1])
            if pool is None:
                pool = [0, 1, 2, 3, 5] if t[1] == 'Z' else [1, 2]
            if not pool:
                raise ValueError('empty base')
            v = self.rnd.choice(pool)
            return v, v
        return super().value(t, size_hint)


class TypedGen:
    def __init__(self, rnd, big=False):
        self.rnd = rnd
        self.big = big
        self.ctx = Ctx()
        self.fresh = 0
        self.names_pool = ['a', 'b', 'c', 'x', 'y', 'z', 't', 'u', 'v', 'w', 'k', 'n', 'ab', 'bc', 'x1', 'σ', 'ξ', 'α']

    # ------------------------------------------------------------------ context
    def make_context(self, with_funcs=True, empty_bases=0.1):
        rnd = self.rnd
        c = self.ctx
        max_base = 8 if self.big else 4
        for name in ['X1'] + (['X2'] if rnd.random() < 0.7 else []):
            c.types[name] = S(E(name))
            c.traits[name] = 'nominal'
            c.vclass[name] = 'value'
            n = 0 if rnd.random() < empty_bases else rnd.randint(1, max_base)
            c.bases[name] = list(range(1, n + 1))
            c.data[name] = frozenset(c.bases[name])
        if rnd.random() < 0.6:
            c.types['C1'] = S(E('C1'))
            c.traits['C1'] = 'integral'
            c.vclass['C1'] = 'value'
            c.bases['C1'] = sorted(rnd.sample([0, 1, 2, 3, 4, 7, 10], rnd.randint(1, 4)))
            c.data['C1'] = frozenset(c.bases['C1'])
        basics = [E(b) for b in c.bases] + [Z]
        # structures and terms
        k = 0
        for name in ['S1', 'S2', 'S3', 'D1', 'D2', 'D3', 'D4']:
            if rnd.random() < 0.25:
                continue
            t = self.random_type(basics, rnd.choice([1, 2, 2, 3]), top_set=name.startswith('S') or rnd.random() < 0.6)
            if self.mentions_empty_base(t) and t[0] != 's':
                continue
            c.types[name] = t
            c.vclass[name] = 'props' if (rnd.random() < 0.06 and t[0] == 's') else 'value'
            try:
                g = DataGen(rnd, c.bases, lazy=0.0, max_set=4)
                c.data[name] = g.value(model_type(t))[0]
            except (ValueError, IndexError):
                del c.types[name]
                del c.vclass[name]
            k += 1
        # logic-typed names (axiom/theorem) - hostile identifiers for set positions
        if rnd.random() < 0.5:
            c.types['A1'] = LOGIC
            c.vclass['A1'] = 'value'
            c.data['A1'] = True
        if with_funcs:
            for fname in ['F1', 'F2', 'F3']:
                if fname == 'F1' and rnd.random() < 0.55:
                    self.make_templated_filter(fname)
                elif rnd.random() < 0.75:
                    self.make_function(fname, logic=False)
            for pname in ['P1', 'P2']:
                if rnd.random() < 0.5:
                    self.make_function(pname, logic=True)
        return c

    def mentions_empty_base(self, t):
        if t[0] == 'e':
            return t[1] in self.ctx.bases and not self.ctx.bases[t[1]]
        if t[0] == 's':
            return False
        return any(self.mentions_empty_base(c) for c in t[1])

    def random_type(self, basics, depth, top_set=False):
        rnd = self.rnd
        r = rnd.random()
        if depth <= 0 or (not top_set and r < 0.3):
            return rnd.choice(basics)
        if top_set or r < 0.65:
            return S(self.random_type(basics, depth - 1))
        n = rnd.choice([2, 2, 3])
        return T(*[self.random_type(basics, depth - 1) for _ in range(n)])

    def make_templated_filter(self, name):
        """F[a∈ℬ(R1)] = D{x∈a | Q y∈a (x R y)}: a templated term-function with two bound variables of its own"""
        rnd = self.rnd
        c = self.ctx
        a, x, y = rnd.sample(self.names_pool, 3)
        rel = rnd.choice([N('EQUAL', None, [N('ID_LOCAL', y), N('ID_LOCAL', x)]), N('NOTEQUAL', None, [N('ID_LOCAL', x), N('ID_LOCAL', y)]),
                          N('IN', None, [N('ID_LOCAL', y), N('NT_ENUMERATION', None, [N('ID_LOCAL', x)])])])
        cond = N(rnd.choice(['EXISTS', 'FORALL']), None, [N('ID_LOCAL', y), N('ID_LOCAL', a), rel])
        if rnd.random() < 0.5:
            # variant over a fixed base set: the argument is only read inside the loop over the function's own variable
            base = rnd.choice(sorted(c.bases))
            body = N('NT_DECLARATIVE_EXPR', None, [N('ID_LOCAL', x), N('ID_GLOBAL', base), cond])
            arg = N('NT_ARG_DECL', None, [N('ID_LOCAL', a), N('BOOLEAN', None, [N('ID_GLOBAL', base)])])
        else:
            body = N('NT_DECLARATIVE_EXPR', None, [N('ID_LOCAL', x), N('ID_LOCAL', a), cond])
            arg = N('NT_ARG_DECL', None, [N('ID_LOCAL', a), N('BOOLEAN', None, [N('ID_RADICAL', 'R1')])])
        tree = N('PUNC_DEFINE', None, [N('ID_FUNCTION', name), N('NT_FUNC_DEFINITION', None, [N('NT_ARGUMENTS', None, [arg]), body])])
        res = rt.check_expression(tree, c.ref())
        if res['status'] != 'ok':
            return
        c.types[name] = res['type']
        c.funcs[name] = res['args']
        c.vclass[name] = 'value'
        c.bodies[name] = tree
        c.texts[name] = rg.render(tree, 'MATH')[0]

    def make_function(self, name, logic):
        rnd = self.rnd
        c = self.ctx
        basics = [E(b) for b in c.bases] + [Z]
        templated = rnd.random() < 0.45
        nargs = rnd.choice([1, 1, 2, 2, 3])
        args = []
        env = []
        used = set()
        for k in range(nargs):
            an = self.rnd.choice([n for n in self.names_pool if n not in used])
            used.add(an)
            if templated and rnd.random() < 0.7:
                rad = E(rnd.choice(['R1', 'R2']))
                shape = rnd.choice(['set', 'set', 'setset', 'pairset', 'elem'])
                at = {'set': S(rad), 'setset': S(S(rad)), 'pairset': S(T(rad, rnd.choice(basics + [rad]))), 'elem': rad}[shape]
            else:
                at = self.random_type(basics, rnd.choice([0, 1, 1, 2]), top_set=rnd.random() < 0.6)
            args.append((an, at))
            env.append((an, at))
        arg_nodes = [N('NT_ARG_DECL', None, [N('ID_LOCAL', an), self.type_expr(at)]) for an, at in args]
        if any(a[2][1] is None for a in arg_nodes):
            return
        saved_fresh = self.fresh
        for attempt in range(6):
            if logic:
                body = self.logic(env, 2)
            elif args[0][1][0] == 's' and attempt < 3 and rnd.random() < 0.6:
                # canonical shape: result has the type of the first argument and the body binds its own local,
                # optionally calling an earlier function on it:  [a∈ℬ(T), ...] D{x∈a | cond}
                a0, t0 = args[0]
                decl, ext = self.binder(env, t0[1], allow_tuple=False)
                cond = self.call_condition(env + ext) if rnd.random() < 0.7 else None
                if cond is None:
                    cond = self.logic(env + ext, 1)
                dom = N('ID_LOCAL', a0) if rnd.random() < 0.7 else N('UNION', None, [N('ID_LOCAL', a0), N('ID_LOCAL', a0)])
                body = N('NT_DECLARATIVE_EXPR', None, [decl, dom, cond])
            else:
                target = rnd.choice([S(args[0][1][1]) if args[0][1][0] == 's' else None, args[0][1], None, None])
                if target is None:
                    target = self.random_type(basics, rnd.choice([1, 2]), top_set=True)
                body = None
                if target[0] == 's' and rnd.random() < 0.6:
                    # a body with its own bound variable (and possibly a call of an earlier function on it)
                    dom = self.expr(target, env, 1, 'NT_DECLARATIVE_EXPR')
                    if dom is not None:
                        decl, ext = self.binder(env, target[1])
                        cond = self.call_condition(env + ext) if rnd.random() < 0.6 else None
                        if cond is None:
                            cond = self.logic(env + ext, 2)
                        body = N('NT_DECLARATIVE_EXPR', None, [decl, dom, cond])
                if body is None:
                    body = self.expr(target, env, 2, parent=None)
            if body is None:
                continue
            if not any(self.mentions(body, an) for an, _ in args):
                continue
            fdef = N('NT_FUNC_DEFINITION', None, [N('NT_ARGUMENTS', None, arg_nodes), body])
            tree = N('PUNC_DEFINE', None, [N('ID_PREDICATE' if logic else 'ID_FUNCTION', name), fdef])
            res = rt.check_expression(tree, c.ref())
            if res['status'] != 'ok' or (res['type'] == LOGIC) != logic:
                continue
            rads_res = rt.radicals_in(res['type']) if res['type'] != LOGIC else set()
            rads_args = set()
            for _an, at in res['args']:
                rt.radicals_in(at, rads_args)
            if not rads_res <= rads_args:
                continue
            try:
                rt.value_class(tree, c.ref())
            except rt.ClassErr:
                continue
            c.types[name] = res['type']
            c.funcs[name] = res['args']
            c.vclass[name] = 'value'
            c.bodies[name] = tree
            c.texts[name] = rg.render(tree, 'MATH')[0]
            return
        self.fresh = saved_fresh

    def type_expr(self, t):
        """a set expression whose value is the set of all elements of type t (domain of an argument declaration)"""
        if t[0] == 'e':
            if t[1] == 'Z':
                return N('LIT_INTSET')
            if rt.is_radical_name(t[1]):
                return N('ID_RADICAL', t[1])
            return N('ID_GLOBAL', t[1])
        if t[0] == 's':
            inner = self.type_expr(t[1])
            return None if inner is None else N('BOOLEAN', None, [inner])
        parts = [self.type_expr(c) for c in t[1]]
        if any(p is None for p in parts):
            return None
        return N('DECART', None, parts)

    @staticmethod
    def mentions(node, name):
        if node[0] == 'ID_LOCAL' and node[1] == name:
            return True
        return any(TypedGen.mentions(c, name) for c in node[2])

    # ------------------------------------------------------------------ expressions
    def new_name(self, env):
        taken = {n for n, _ in env}
        cands = [n for n in self.names_pool if n not in taken]
        if cands and self.rnd.random() < 0.85:
            return self.rnd.choice(cands)
        self.fresh += 1
        return f'v{self.fresh}'

    def locals_of(self, env, t):
        return [n for n, vt in env if vt == t]

    def globals_of(self, t):
        return [n for n, vt in self.ctx.types.items() if vt == t and n not in self.ctx.funcs]

    def binder(self, env, elem_type, allow_tuple=True):
        """fresh declaration for a domain element type: (declaration node, env extension)"""
        rnd = self.rnd
        if elem_type[0] == 't' and allow_tuple and rnd.random() < 0.4:
            ext = []
            decl = self.tuple_pattern(env, elem_type, ext)
            return decl, ext
        name = self.new_name(env)
        return N('ID_LOCAL', name), [(name, elem_type)]

    def tuple_pattern(self, env, t, ext):
        kids = []
        for c in t[1]:
            if c[0] == 't' and self.rnd.random() < 0.4:
                kids.append(self.tuple_pattern(env, c, ext))
            else:
                name = self.new_name(env + ext)
                ext.append((name, c))
                kids.append(N('ID_LOCAL', name))
        return N('NT_TUPLE_DECL', None, kids)

    def expr(self, t, env, depth, parent=None):
        """expression of type t (or None)"""
        rnd = self.rnd
        for _ in range(4):
            r = self.try_expr(t, env, depth, parent)
            if r is not None:
                return r
        return None

    def leaf(self, t, env, parent):
        rnd = self.rnd
        opts = []
        for n in self.locals_of(env, t):
            opts.append(N('ID_LOCAL', n))
            opts.append(N('ID_LOCAL', n))
        for n in self.globals_of(t):
            opts.append(N('ID_GLOBAL', n))
        if t == Z:
            opts.append(N('LIT_INTEGER', rnd.choice([0, 1, 1, 2, 3, 5, 10])))
            opts.append(N('LIT_INTEGER', rnd.choice([0, 1, 2])))
        if t[0] == 'e' and self.ctx.traits.get(t[1]) == 'integral':
            opts.append(N('LIT_INTEGER', rnd.choice(self.ctx.bases.get(t[1]) or [1])))
        if t == S(Z) and parent not in ('expr-value',):
            pass   # Z (the integer set) cannot be evaluated; used only through typed contexts
        if t[0] == 's' and parent not in rt.EMPTY_FORBIDDEN_PARENTS and rnd.random() < 0.08:
            opts.append(N('LIT_EMPTYSET'))
        if not opts:
            return None
        return rnd.choice(opts)

    def try_expr(self, t, env, depth, parent):
        rnd = self.rnd
        if depth <= 0 or rnd.random() < 0.22:
            lf = self.leaf(t, env, parent)
            if lf is not None or depth <= 0:
                return lf
        d = depth - 1
        prods = []
        if t == Z or (t[0] == 'e' and self.ctx.traits.get(t[1]) == 'integral'):
            prods += ['arith', 'arith', 'card', 'leaf']
        if t[0] == 's':
            prods += ['setop', 'setop', 'decl', 'decl', 'enum', 'imper', 'leaf', 'leaf', 'recur']
            et = t[1]
            if et[0] == 's':
                prods += ['boolean', 'boolean']
            if et[0] == 't':
                prods += ['product', 'product', 'filter']
            prods += ['bigpr', 'red', 'boolfn']
        if t[0] == 't':
            prods += ['tuple', 'tuple', 'tuple']
        prods += ['debool', 'smallpr', 'call', 'leaf']
        kind = rnd.choice(prods)
        if kind == 'leaf':
            return self.leaf(t, env, parent)
        if kind == 'arith':
            op = rnd.choice(['PLUS', 'MINUS', 'MULTIPLY'])
            a = self.expr(t if rnd.random() < 0.6 else Z, env, d, op)
            b = self.expr(t if rnd.random() < 0.4 else Z, env, d, op)
            if a is None or b is None:
                return None
            return N(op, None, [a, b])
        if kind == 'card':
            if t != Z:
                return None
            s = self.any_set(env, d, 'CARD')
            return None if s is None else N('CARD', None, [s])
        if kind == 'setop':
            op = rnd.choice(['UNION', 'INTERSECTION', 'SET_MINUS', 'SYMMINUS'])
            a = self.expr(t, env, d, op)
            b = self.expr(t, env, d, op)
            if a is None or b is None:
                return None
            return N(op, None, [a, b])
        if kind == 'decl':
            dom = self.expr(t, env, d, 'NT_DECLARATIVE_EXPR')
            if dom is None:
                return None
            decl, ext = self.binder(env, t[1])
            body = self.logic(env + ext, d)
            if body is None:
                return None
            return N('NT_DECLARATIVE_EXPR', None, [decl, dom, body])
        if kind == 'enum':
            n = rnd.choice([1, 2, 2, 3])
            items = [self.expr(t[1], env, d, 'NT_ENUMERATION') for _ in range(n)]
            if any(x is None for x in items):
                return None
            return N('NT_ENUMERATION', None, items)
        if kind == 'boolfn':
            x = self.expr(t[1], env, d, 'BOOL')
            return None if x is None else N('BOOL', None, [x])
        if kind == 'boolean':
            x = self.expr(t[1], env, d, 'BOOLEAN')
            return None if x is None else N('BOOLEAN', None, [x])
        if kind == 'product':
            parts = [self.expr(S(c), env, d, 'DECART') for c in t[1][1]]
            if any(p is None for p in parts):
                return None
            return N('DECART', None, parts)
        if kind == 'filter':
            arity = len(t[1][1])
            k = rnd.choice([1, 1, 2]) if arity >= 2 else 1
            idx = [rnd.randint(1, arity) for _ in range(k)]
            arg = self.expr(t, env, d, 'FILTER')
            if arg is None:
                return None
            if k > 1 and rnd.random() < 0.4:
                p = self.expr(S(rt.mk_tuple(t[1][1][i - 1] for i in idx)), env, d, 'FILTER')
                params = [p]
            else:
                params = [self.expr(S(t[1][1][i - 1]), env, d, 'FILTER') for i in idx]
            if any(p is None for p in params):
                return None
            return N('FILTER', idx, params + [arg])
        if kind == 'bigpr':
            # choose a wider tuple set that projects onto t[1]
            comps = list(t[1][1]) if t[1][0] == 't' else [t[1]]
            extra = rnd.choice([E(b) for b in self.ctx.bases] + [Z])
            pos = rnd.randint(0, len(comps))
            wide = comps[:pos] + [extra] + comps[pos:]
            idx = [i + 1 for i in range(len(wide)) if i != pos]
            if rnd.random() < 0.3 and len(idx) >= 2:
                # permuted projection of the same width
                wide = comps[::-1]
                idx = list(range(len(comps), 0, -1))
            src = self.expr(S(T(*wide)), env, d, 'BIGPR')
            return None if src is None else N('BIGPR', idx, [src])
        if kind == 'red':
            src = self.expr(S(t), env, d, 'REDUCE')
            return None if src is None else N('REDUCE', None, [src])
        if kind == 'tuple':
            parts = [self.expr(c, env, d, 'NT_TUPLE') for c in t[1]]
            if any(p is None for p in parts):
                return None
            return N('NT_TUPLE', None, parts)
        if kind == 'debool':
            if rnd.random() < 0.6:
                inner = self.expr(t, env, d, 'BOOL')
                if inner is None:
                    return None
                return N('DEBOOL', None, [N('BOOL', None, [inner])]) if rnd.random() < 0.5 else N('DEBOOL', None, [N('NT_ENUMERATION', None, [inner])])
            src = self.expr(S(t), env, d, 'DEBOOL')
            return None if src is None else N('DEBOOL', None, [src])
        if kind == 'smallpr':
            extra = rnd.choice([E(b) for b in self.ctx.bases] + [Z])
            if rnd.random() < 0.5:
                wide, idx = T(t, extra), [1]
            else:
                wide, idx = T(extra, t), [2]
            if t[0] == 't' and rnd.random() < 0.5:
                comps = list(t[1])
                wide = T(*(comps + [extra]))
                idx = list(range(1, len(comps) + 1))
            src = self.expr(wide, env, d, 'SMALLPR')
            return None if src is None else N('SMALLPR', idx, [src])
        if kind == 'imper':
            return self.imperative(t, env, d)
        if kind == 'recur':
            return self.recursion(t, env, d)
        if kind == 'call':
            return self.call(t, env, d)
        return None

    def any_set(self, env, depth, parent):
        rnd = self.rnd
        cands = [vt for _n, vt in env if vt[0] == 's'] + [vt for n, vt in self.ctx.types.items() if vt != LOGIC and vt[0] == 's' and n not in self.ctx.funcs]
        if not cands:
            return None
        return self.expr(rnd.choice(cands), env, depth, parent)

    def imperative(self, t, env, depth):
        rnd = self.rnd
        cur = list(env)
        blocks = []
        if rnd.random() < 0.3:
            # dependent blocks: outer iterate, assignment depending on it, inner iterate over the assigned variable
            src = self.expr(t, env, depth, 'BOOLEAN')
            if src is not None:
                a, s_, b = self.new_name(cur), None, None
                cur.append((a, t))
                s_ = self.new_name(cur)
                cur.append((s_, t))
                b = self.new_name(cur)
                cur.append((b, t[1]))
                outer = N('BOOLEAN', None, [src]) if rnd.random() < 0.7 else N('NT_ENUMERATION', None, [src, N('SET_MINUS', None, [rg.map_locals(src, lambda x: x), rg.map_locals(src, lambda x: x)])])
                assigned = N('ID_LOCAL', a) if rnd.random() < 0.6 else N(rnd.choice(['UNION', 'INTERSECTION']), None, [N('ID_LOCAL', a), rg.map_locals(src, lambda x: x)])
                blocks = [N('ITERATE', None, [N('ID_LOCAL', a), outer]), N('ASSIGN', None, [N('ID_LOCAL', s_), assigned]),
                          N('ITERATE', None, [N('ID_LOCAL', b), N('ID_LOCAL', s_)])]
                if rnd.random() < 0.3:
                    g = self.logic(cur, depth)
                    if g is not None:
                        blocks.append(g)
                value = N('ID_LOCAL', b) if rnd.random() < 0.7 else (self.expr(t[1], cur, depth, 'NT_IMPERATIVE_EXPR') or N('ID_LOCAL', b))
                return N('NT_IMPERATIVE_EXPR', None, [value] + blocks)
            cur = list(env)
        for _ in range(rnd.choice([1, 2, 2, 3])):
            r = rnd.random()
            if r < 0.5:
                st = self.pick_set_type(cur, prefer=t)
                dom = self.expr(st, cur, depth, 'ITERATE')
                if dom is None:
                    continue
                decl, ext = self.binder(cur, st[1])
                blocks.append(N('ITERATE', None, [decl, dom]))
                cur = cur + ext
            elif r < 0.75:
                vt = rnd.choice([t[1], t, Z] + [vt for _n, vt in cur][:3])
                val = self.expr(vt, cur, depth, 'ASSIGN')
                if val is None:
                    continue
                decl, ext = self.binder(cur, vt)
                blocks.append(N('ASSIGN', None, [decl, val]))
                cur = cur + ext
            else:
                g = self.logic(cur, depth)
                if g is not None:
                    blocks.append(g)
        if not blocks:
            return None
        value = self.expr(t[1], cur, depth, 'NT_IMPERATIVE_EXPR')
        if value is None:
            return None
        return N('NT_IMPERATIVE_EXPR', None, [value] + blocks)

    def pick_set_type(self, env, prefer=None):
        rnd = self.rnd
        cands = [vt for _n, vt in env if vt[0] == 's'] + [vt for n, vt in self.ctx.types.items() if vt != LOGIC and vt[0] == 's' and n not in self.ctx.funcs]
        if prefer is not None and prefer[0] == 's':
            cands += [prefer, prefer]
        return rnd.choice(cands) if cands else S(E('X1'))

    def recursion(self, t, env, depth):
        rnd = self.rnd
        init = self.expr(t, env, depth, 'NT_RECURSIVE_SHORT')
        if init is None:
            return None
        decl, ext = self.binder(env, t, allow_tuple=False)
        var = N('ID_LOCAL', ext[0][0])
        # monotone step so that the iteration converges: x ∪ f(x) / x ∩ g
        extra = self.expr(t, env + ext, depth, 'UNION')
        if extra is None:
            return None
        step = N(rnd.choice(['UNION', 'UNION', 'INTERSECTION']), None, [var, extra])
        if rnd.random() < 0.4:
            cond = self.logic(env + ext, depth)
            if cond is None:
                return None
            return N('NT_RECURSIVE_FULL', None, [decl, init, cond, step])
        return N('NT_RECURSIVE_SHORT', None, [decl, init, step])

    def call(self, t, env, depth):
        rnd = self.rnd
        c = self.ctx
        names = [n for n in c.funcs if c.types[n] != LOGIC]
        rnd.shuffle(names)
        for name in names:
            res = c.types[name]
            rads = rt.radicals_in(res)
            subst = {}
            if rads:
                if not rt.match_template(c.ref(), subst, res, t):
                    continue
            elif res != t:
                continue
            args = []
            ok = True
            for _an, at in c.funcs[name]:
                need = set(rt.radicals_in(at)) - set(subst)
                for r in need:
                    subst[r] = rnd.choice([E(b) for b in c.bases] + [Z])
                actual_t = rt.substitute(at, subst)
                a = self.expr(actual_t, env, depth, 'NT_FUNC_CALL')
                if a is None:
                    ok = False
                    break
                args.append(a)
            if ok:
                call = N('NT_FUNC_CALL', None, [N('ID_FUNCTION', name)] + args)
                if rnd.random() < 0.35:
                    # nest the call inside itself where an argument has the result type
                    for k, (_an, at) in enumerate(c.funcs[name]):
                        if rt.substitute(at, subst) == t:
                            outer_args = [rg.map_locals(x, lambda y: y) for x in args]
                            outer_args[k] = call
                            return N('NT_FUNC_CALL', None, [N('ID_FUNCTION', name)] + outer_args)
                return call
        return None

    def call_condition(self, env):
        """a formula that calls an already defined term-function on the innermost local variable"""
        rnd = self.rnd
        c = self.ctx
        names = [n for n in c.funcs if c.types[n] != LOGIC]
        rnd.shuffle(names)
        if not env:
            return None
        vname, vtype = env[-1]
        var = N('ID_LOCAL', vname)
        for name in names:
            declared = c.funcs[name]
            for k, (_an, at) in enumerate(declared):
                for actual, actual_t in ((var, vtype), (N('NT_ENUMERATION', None, [var]), S(vtype)), (N('BOOL', None, [var]), S(vtype))):
                    subst = {}
                    if not rt.match_template(c.ref(), subst, at, actual_t):
                        continue
                    args = []
                    ok = True
                    for j, (_bn, bt) in enumerate(declared):
                        if j == k:
                            args.append(actual)
                            continue
                        for r in set(rt.radicals_in(bt)) - set(subst):
                            subst[r] = rnd.choice([E(b) for b in c.bases] + [Z])
                        a = self.expr(rt.substitute(bt, subst), env, 1, 'NT_FUNC_CALL')
                        if a is None:
                            ok = False
                            break
                        args.append(a)
                    if not ok:
                        continue
                    call = N('NT_FUNC_CALL', None, [N('ID_FUNCTION', name)] + args)
                    res = rt.substitute(c.types[name], subst)
                    if rt.radicals_in(res):
                        continue
                    other = self.expr(res, env, 1, 'EQUAL')
                    if other is None:
                        continue
                    if res[0] == 's' and rnd.random() < 0.5:
                        return N(rnd.choice(['SUBSET_OR_EQ', 'NOTSUBSET']), None, [call, other])
                    return N(rnd.choice(['EQUAL', 'NOTEQUAL']), None, [call, other])
        return None

    # ------------------------------------------------------------------ logic
    def logic(self, env, depth):
        for _ in range(5):
            r = self.try_logic(env, depth)
            if r is not None:
                return r
        return N('EQUAL', None, [N('LIT_INTEGER', 1), N('LIT_INTEGER', 1)])

    def some_type(self, env):
        rnd = self.rnd
        cands = [vt for _n, vt in env] * 2 + [vt for n, vt in self.ctx.types.items() if vt != LOGIC and n not in self.ctx.funcs] + [Z]
        return rnd.choice(cands)

    def try_logic(self, env, depth):
        rnd = self.rnd
        d = depth - 1
        r = rnd.random()
        if depth <= 0 or r < 0.45:
            kind = rnd.choice(['eq', 'eq', 'in', 'in', 'in', 'subset', 'order', 'predcall'])
            if kind == 'eq':
                t = self.some_type(env)
                a = self.expr(t, env, max(d, 0), 'EQUAL')
                b = self.expr(t, env, max(d, 0), 'EQUAL')
                if a is None or b is None:
                    return None
                return N(rnd.choice(['EQUAL', 'NOTEQUAL']), None, [a, b])
            if kind == 'in':
                st = self.pick_set_type(env)
                a = self.expr(st[1], env, max(d, 0), 'IN')
                b = self.expr(st, env, max(d, 0), 'IN')
                if a is None or b is None:
                    return None
                return N(rnd.choice(['IN', 'IN', 'NOTIN']), None, [a, b])
            if kind == 'subset':
                st = self.pick_set_type(env)
                a = self.expr(st, env, max(d, 0), 'SUBSET')
                b = self.expr(st, env, max(d, 0), 'SUBSET')
                if a is None or b is None:
                    return None
                return N(rnd.choice(['SUBSET', 'SUBSET_OR_EQ', 'NOTSUBSET']), None, [a, b])
            if kind == 'order':
                a = self.expr(Z, env, max(d, 0), 'LESSER')
                b = self.expr(Z, env, max(d, 0), 'LESSER')
                if a is None or b is None:
                    return None
                return N(rnd.choice(['GREATER', 'LESSER', 'GREATER_OR_EQ', 'LESSER_OR_EQ']), None, [a, b])
            preds = [n for n in self.ctx.funcs if self.ctx.types[n] == LOGIC]
            if not preds:
                return None
            name = rnd.choice(preds)
            subst = {}
            args = []
            for _an, at in self.ctx.funcs[name]:
                for rad in set(rt.radicals_in(at)) - set(subst):
                    subst[rad] = rnd.choice([E(b) for b in self.ctx.bases] + [Z])
                a = self.expr(rt.substitute(at, subst), env, max(d, 0), 'NT_FUNC_CALL')
                if a is None:
                    return None
                args.append(a)
            return N('NT_FUNC_CALL', None, [N('ID_PREDICATE', name)] + args)
        if r < 0.65:
            a = self.logic(env, d)
            b = self.logic(env, d)
            return N(rnd.choice(rg.LOGIC_BINARY), None, [a, b])
        if r < 0.72:
            return N('NOT', None, [self.logic(env, d)])
        st = self.pick_set_type(env)
        dom = self.expr(st, env, d, 'FORALL')
        if dom is None:
            return None
        if rnd.random() < 0.2:
            names = []
            ext = []
            for _ in range(rnd.choice([2, 2, 3])):
                if st[1][0] == 't' and rnd.random() < 0.5:
                    e2 = []
                    names.append(self.tuple_pattern(env + ext, st[1], e2))
                    ext += e2
                else:
                    nm = self.new_name(env + ext)
                    names.append(N('ID_LOCAL', nm))
                    ext.append((nm, st[1]))
            decl = N('NT_ENUM_DECL', None, names)
        else:
            decl, ext = self.binder(env, st[1])
        body = self.logic(env + ext, d)
        return N(rnd.choice(['FORALL', 'EXISTS']), None, [decl, dom, body])

    # ------------------------------------------------------------------ top level
    def expression(self, depth):
        rnd = self.rnd
        if rnd.random() < 0.4:
            return self.logic([], depth)
        cands = [vt for n, vt in self.ctx.types.items() if vt != LOGIC and n not in self.ctx.funcs]
        t = rnd.choice(cands + [Z, S(Z)]) if cands else Z
        if rnd.random() < 0.3:
            t = S(t) if rnd.random() < 0.5 else (T(t, rnd.choice(cands)) if cands else t)
        e = self.expr(t, [], depth)
        return e if e is not None else self.logic([], depth)


# ---------------------------------------------------------------------------------------------------
# near-miss mutation
# ---------------------------------------------------------------------------------------------------

def all_paths(node, path=()):
    yield path, node
    for k, c in enumerate(node[2]):
        yield from all_paths(c, path + (k,))


def replace_at(node, path, new):
    if not path:
        return new
    kids = list(node[2])
    kids[path[0]] = replace_at(kids[path[0]], path[1:], new)
    return [node[0], node[1], kids]


def mutate(tree, gen, rnd):
    """one near-miss mutation of a (usually well-typed) tree; returns (tree, kind)"""
    paths = list(all_paths(tree))
    ctx = gen.ctx
    if rnd.random() < 0.15:
        # sibling scopes re-using one bound name (legal: only a warning), optionally with a use transplanted from the
        # first scope into the second (legal only if both domains have the same typification)
        binders = [(p, n) for p, n in paths if n[0] in ('FORALL', 'EXISTS', 'NT_DECLARATIVE_EXPR') and n[2][0][0] == 'ID_LOCAL']
        pairs = [(a, b) for a in binders for b in binders if a[0] < b[0] and b[0][:len(a[0])] != a[0] and a[1][2][0][1] != b[1][2][0][1]]
        if pairs:
            (p1, b1), (p2, b2) = rnd.choice(pairs)
            v1, v2 = b1[2][0][1], b2[2][0][1]
            if not TypedGen.mentions(b2, v1):
                renamed = rg.map_locals(b2, lambda x: v1 if x == v2 else x)
                kind = 'sibling-rename'
                if rnd.random() < 0.5:
                    uses = [n for p, n in all_paths(b1[2][2]) if n[0] != 'ID_LOCAL' and TypedGen.mentions(n, v1) and not rg.is_logic(n)
                            and not any(m[0] in ('FORALL', 'EXISTS', 'NT_DECLARATIVE_EXPR', 'NT_IMPERATIVE_EXPR', 'NT_RECURSIVE_FULL', 'NT_RECURSIVE_SHORT') for _p, m in all_paths(n))]
                    spots = [p for p, n in all_paths(renamed[2][2]) if n[0] == 'ID_LOCAL' and n[1] == v1]
                    if uses and spots:
                        body = replace_at(renamed[2][2], rnd.choice(spots), rg.map_locals(rnd.choice(uses), lambda x: x))
                        renamed = [renamed[0], renamed[1], [renamed[2][0], renamed[2][1], body]]
                        kind = 'sibling-transplant'
                return replace_at(tree, p2, renamed), kind
    for _ in range(20):
        path, node = rnd.choice(paths)
        i = node[0]
        kind = rnd.choice(['swap-leaf', 'index', 'undeclared', 'shadow', 'axiom', 'emptyset', 'arity', 'wrong-type', 'int-elem',
                           'op-category', 'funcname', 'drop-arg'])
        if kind == 'swap-leaf' and i in ('ID_GLOBAL', 'ID_LOCAL', 'LIT_INTEGER'):
            names = [n for n in ctx.types if n not in ctx.funcs]
            if names:
                return replace_at(tree, path, N('ID_GLOBAL', rnd.choice(names))), kind
        if kind == 'index' and i in ('BIGPR', 'SMALLPR', 'FILTER'):
            idx = list(node[1])
            k = rnd.randrange(len(idx))
            idx[k] = idx[k] + rnd.choice([1, 1, 2, -1]) if idx[k] > 1 else idx[k] + rnd.choice([1, 2, 3])
            return replace_at(tree, path, [i, idx, node[2]]), kind
        if kind == 'undeclared' and i == 'ID_LOCAL' and path and True:
            return replace_at(tree, path, N('ID_LOCAL', rnd.choice(['q', 'zz', 'undeclared']))), kind
        if kind == 'shadow' and i in ('FORALL', 'EXISTS', 'NT_DECLARATIVE_EXPR') and node[2][0][0] == 'ID_LOCAL':
            # re-use an enclosing binder's name
            outer = [n for p, n in paths if len(p) < len(path) and path[:len(p)] == p and n[0] in ('FORALL', 'EXISTS', 'NT_DECLARATIVE_EXPR') and n[2][0][0] == 'ID_LOCAL']
            if outer:
                new_name = outer[-1][2][0][1]
                old = node[2][0][1]
                renamed = rg.map_locals(node, lambda x: new_name if x == old else x)
                return replace_at(tree, path, renamed), kind
        if kind == 'axiom' and i == 'ID_GLOBAL' and 'A1' in ctx.types:
            return replace_at(tree, path, N('ID_GLOBAL', 'A1')), kind
        if kind == 'funcname' and i == 'ID_GLOBAL' and ctx.funcs:
            nm = rnd.choice(sorted(ctx.funcs))
            return replace_at(tree, path, N('ID_PREDICATE' if ctx.types[nm] == LOGIC else 'ID_FUNCTION', nm)), kind
        if kind == 'emptyset' and i in ('ID_GLOBAL', 'ID_LOCAL', 'NT_ENUMERATION', 'NT_DECLARATIVE_EXPR'):
            return replace_at(tree, path, N('LIT_EMPTYSET')), kind
        if kind == 'arity' and i in ('NT_TUPLE', 'NT_TUPLE_DECL', 'DECART') and len(node[2]) >= 2:
            kids = list(node[2])
            if rnd.random() < 0.5 and len(kids) > 2:
                kids.pop(rnd.randrange(len(kids)))
            else:
                kids.insert(rnd.randrange(len(kids) + 1), rg.map_locals(kids[0], lambda x: x) if i != 'NT_TUPLE_DECL' else N('ID_LOCAL', 'extra'))
            return replace_at(tree, path, [i, node[1], kids]), kind
        if kind == 'drop-arg' and i == 'NT_FUNC_CALL' and len(node[2]) >= 2:
            kids = list(node[2])
            if rnd.random() < 0.5 and len(kids) > 2:
                kids.pop()
            else:
                kids.append(rg.map_locals(kids[-1], lambda x: x))
            return replace_at(tree, path, [i, node[1], kids]), kind
        if kind == 'wrong-type' and i not in ('NT_TUPLE_DECL', 'NT_ENUM_DECL', 'ID_FUNCTION', 'ID_PREDICATE', 'NT_ARGUMENTS', 'NT_ARG_DECL') and path:
            parent = tree
            for k in path[:-1]:
                parent = parent[2][k]
            if parent[0] in ('NT_TUPLE_DECL', 'NT_ENUM_DECL', 'NT_ARG_DECL', 'NT_ARGUMENTS', 'ITERATE', 'ASSIGN') and path[-1] == 0:
                continue
            if parent[0] in ('FORALL', 'EXISTS', 'NT_DECLARATIVE_EXPR', 'NT_RECURSIVE_FULL', 'NT_RECURSIVE_SHORT') and path[-1] == 0:
                continue
            if rg.is_logic(node):
                continue
            cands = [vt for n, vt in ctx.types.items() if vt != LOGIC and n not in ctx.funcs] + [Z]
            new = gen.expr(rnd.choice(cands), [], 1)
            if new is not None:
                return replace_at(tree, path, new), kind
        if kind == 'int-elem' and i == 'ID_LOCAL':
            return replace_at(tree, path, N('LIT_INTEGER', rnd.choice([0, 1, 7]))), kind
        if kind == 'op-category' and i in rg.SETOPS:
            return replace_at(tree, path, [rnd.choice(rg.ARITH), None, node[2]]), kind
        if kind == 'op-category' and i in ('IN', 'NOTIN'):
            return replace_at(tree, path, [rnd.choice(['SUBSET', 'EQUAL']), None, node[2]]), kind
    return tree, 'none'
