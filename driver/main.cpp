// ccdrive main loop: one JSON op per stdin line -> "B <i>" marker, then "E <json event>".
#include "drv.h"

#include <sys/time.h>
#include <cxxabi.h>
#include <csignal>
#include <cstdio>
#include <cstdlib>
#include <cstring>
#include <iostream>
#include <map>
#include <unistd.h>

namespace drv {

static std::map<std::string, OpFn>& Table() {
  static std::map<std::string, OpFn> table;
  return table;
}

void Register(const char* name, OpFn fn) { Table()[name] = fn; }

static int HexVal(char c) {
  if (c >= '0' && c <= '9') return c - '0';
  if (c >= 'a' && c <= 'f') return c - 'a' + 10;
  if (c >= 'A' && c <= 'F') return c - 'A' + 10;
  return 0;
}

std::string GetBytes(const json& j, const char* key) {
  const auto it = j.find(key);
  if (it == j.end()) {
    return {};
  }
  if (it->is_string()) {
    return it->get<std::string>();
  }
  if (it->is_object() && it->contains("hex")) {
    const auto hex = (*it)["hex"].get<std::string>();
    std::string out;
    out.reserve(hex.size() / 2);
    for (size_t i = 0; i + 1 < hex.size(); i += 2) {
      out.push_back(static_cast<char>(HexVal(hex[i]) * 16 + HexVal(hex[i + 1])));
    }
    return out;
  }
  return {};
}

bool IsValidUtf8(std::string_view s) {
  size_t i = 0;
  while (i < s.size()) {
    const auto c = static_cast<unsigned char>(s[i]);
    size_t n = 0;
    uint32_t cp = 0;
    if (c < 0x80) { n = 1; cp = c; }
    else if ((c & 0xE0) == 0xC0) { n = 2; cp = c & 0x1F; }
    else if ((c & 0xF0) == 0xE0) { n = 3; cp = c & 0x0F; }
    else if ((c & 0xF8) == 0xF0) { n = 4; cp = c & 0x07; }
    else return false;
    if (i + n > s.size()) return false;
    for (size_t k = 1; k < n; ++k) {
      const auto cc = static_cast<unsigned char>(s[i + k]);
      if ((cc & 0xC0) != 0x80) return false;
      cp = (cp << 6) | (cc & 0x3F);
    }
    if ((n == 2 && cp < 0x80) || (n == 3 && cp < 0x800) || (n == 4 && cp < 0x10000)) return false;
    if (cp > 0x10FFFF || (cp >= 0xD800 && cp <= 0xDFFF)) return false;
    i += n;
  }
  return true;
}

json PutBytes(std::string_view bytes) {
  static constexpr size_t maxLen = 20000;
  if (bytes.size() > maxLen) {
    // very long texts are reported by length, prefix and hash (they are compared, never inspected)
    return json{ {"long", bytes.size()}, {"hash", std::hash<std::string_view>{}(bytes)}, {"head", PutBytes(bytes.substr(0, 64))} };
  }
  if (IsValidUtf8(bytes)) {
    return std::string{ bytes };
  }
  static const char* digits = "0123456789abcdef";
  std::string hex;
  hex.reserve(bytes.size() * 2);
  for (const char ch : bytes) {
    const auto c = static_cast<unsigned char>(ch);
    hex.push_back(digits[c >> 4]);
    hex.push_back(digits[c & 15]);
  }
  return json{ {"hex", hex} };
}

}  // namespace drv

static volatile long g_current = -1;

static void OnAlarm(int) {
  char buf[64];
  const int n = snprintf(buf, sizeof(buf), "\nT %ld\n", g_current);
  if (n > 0) {
    (void)!write(1, buf, static_cast<size_t>(n));
  }
  _exit(3);
}

static std::string CurrentExceptionType() {
  const std::type_info* t = abi::__cxa_current_exception_type();
  if (t == nullptr) {
    return "unknown";
  }
  int status = 0;
  char* dem = abi::__cxa_demangle(t->name(), nullptr, nullptr, &status);
  std::string out = (status == 0 && dem != nullptr) ? dem : t->name();
  free(dem);
  return out;
}

int main() {
  using drv::json;
  std::ios::sync_with_stdio(false);
  unsigned opTimeout = 0;
  if (const char* env = getenv("VERIF_OP_TIMEOUT")) {
    opTimeout = static_cast<unsigned>(atoi(env));
  }
  // the per-op watchdog counts CPU time of this process (ITIMER_PROF), not wall-clock: a loaded machine must not turn a
  // short operation into a reported hang, while a loop that never ends still burns its budget
  signal(SIGPROF, OnAlarm);
  const auto arm = [](unsigned seconds) {
    struct itimerval tv {};
    tv.it_value.tv_sec = static_cast<time_t>(seconds);
    setitimer(ITIMER_PROF, &tv, nullptr);
  };

  std::string line;
  long index = -1;
  while (std::getline(std::cin, line)) {
    if (line.empty()) {
      continue;
    }
    ++index;
    g_current = index;
    std::cout << "B " << index << "\n" << std::flush;
    json out = json::object();
    if (opTimeout != 0) {
      arm(opTimeout);
    }
    try {
      const json op = json::parse(line);
      const auto name = op.at("op").get<std::string>();
      const auto it = drv::Table().find(name);
      if (it == drv::Table().end()) {
        out["harness_error"] = "unknown op " + name;
      } else {
        out = it->second(op);
      }
    } catch (const nlohmann::json::exception& e) {
      out = json{ {"exc", { {"type", CurrentExceptionType()}, {"what", e.what()}, {"json", true} }} };
    } catch (const std::exception& e) {
      out = json{ {"exc", { {"type", CurrentExceptionType()}, {"what", e.what()} }} };
    } catch (...) {
      out = json{ {"exc", { {"type", CurrentExceptionType()}, {"what", ""} }} };
    }
    if (opTimeout != 0) {
      arm(0);
    }
    std::cout << "E " << out.dump(-1, ' ', false, json::error_handler_t::replace) << "\n" << std::flush;
  }
  return 0;
}
