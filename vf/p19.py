"""C19 — operation schema stays sound and never shows outdated synthesis as current."""
from . import core
from . import formgen as fg
from . import rslex
from . import p12

PROP = 'C19'
RULE = ('seeded histories of 15-60 OSSchema operations against an in-memory source manager (real OSSchema, real synthesis): '
        'InsertBase / InsertOperation (incl. same operand twice, erased operands; chains and diamonds), Erase, connecting '
        'documents, editing operand documents and operation results (user additions with backward AND forward references, '
        'reordering) with and without saving, save / close / open events, InitFor merge / synthesis with equation tables, '
        'Execute, ExecuteAll, and save + reload of the operation schema with the items in another order. After EVERY call: '
        '(S) structural monitor - one grid cell and one source handle per pictogram, cells unique and owned, operations have '
        'two distinct existing parents, bases none, parent relation acyclic, edge list = parent lists, Erase succeeds only on '
        'leaves and removes the pictogram from every view, refused Erase changes nothing, reload preserves pictograms, '
        'parents (with order), operation definitions and cells; (F1) after a successful Execute the inherited part of the '
        'stored result equals a fresh BinarySynthes of the parents\' current schemas (reference computed by the driver) and '
        'every user addition of the previous result is carried over with its definition rewritten under the old->new alias '
        'map; (F2) whenever an operation reports done, the inherited part of its stored result equals a fresh synthesis of '
        'the content its parents last ANNOUNCED (recorded by the source manager at every change notification). Distinct = '
        'hash of the script; non-trivial = >= 1 successful execution followed by an announced operand change.')
ASSUMPTIONS = ['the source manager is the harness\'s (modelled on upstream\'s test double): documents are always savable and writable',
               'F1 additions are judged only when no parent was re-executed inside the call (translation keys are otherwise re-keyed)',
               'F2 compares aliases, kinds and formal definitions (what the core hash covers)']
MIN_JUDGED = {'quick': 3000, 'thorough': 60000}
NSH = 32
ADD_DEFS = ['$[%d]∪$[%d]', '$[%d]\\$[%d]', 'ℬ($[%d])', '$[%d]×$[%d]', '$[%d]', 'D{ξ∈$[%d] | ξ∈$[%d]}', '{$[%d]}']


def shards(tier, seed):
    return [{'i': i} for i in range(NSH)]


def doc_schema(rnd, shape):
    edits = [{'k': 'emplace', 'type': t, 'def': d} for t, d in shape]
    for _ in range(rnd.choice([0, 1, 2])):
        edits.append({'k': 'emplace', 'type': 'term', 'def': fg.fill(rnd, rnd.choice(ADD_DEFS), len(edits), dangling=0)})
    if rnd.random() < 0.4:
        edits.append({'k': 'setterm', 'i': rnd.randrange(len(edits)), 'text': rnd.choice(['человек', 'множество @{$[0]|plur,gent}', 'термин'])})
    return edits


def random_edits(rnd, additions):
    out = []
    for _ in range(rnd.choice([1, 1, 2, 3])):
        r = rnd.random()
        n = rnd.randrange(12)
        if r < 0.35 or additions:
            if additions and rnd.random() < 0.3 and out:
                # forward reference: an earlier addition redefined through the one just added
                out.append({'k': 'emplace', 'type': 'term', 'def': fg.fill(rnd, rnd.choice(ADD_DEFS), 12, dangling=0)})
                out.append({'k': 'setexpr', 'i': -2, 'text': '$[-1]\\$[%d]' % rnd.randrange(12)})
            else:
                out.append({'k': 'emplace', 'type': rnd.choice(['term', 'term', 'axiom', 'function']),
                            'def': fg.fill(rnd, rnd.choice(ADD_DEFS + ['$[%d]=$[%d]', '[α∈ℬ($[%d])] α∪$[%d]']), 12, dangling=0)})
        elif r < 0.41:
            out.append({'k': 'swapdefs', 'i': n, 'j': rnd.randrange(12)})
        elif r < 0.47:
            # a definition parked in the convention field and back: the texts of the schema stay the same multiset
            if rnd.random() < 0.5:
                out.append({'k': 'setconv', 'i': n, 'text': fg.fill(rnd, rnd.choice(ADD_DEFS), 12, dangling=0)})
            out.append({'k': 'swapfields', 'i': n})
        elif r < 0.6:
            out.append({'k': 'setexpr', 'i': n, 'text': fg.fill(rnd, rnd.choice(ADD_DEFS + ['ℬ($[%d]×$[%d])', '']), 12, dangling=0)})
        elif r < 0.7:
            out.append({'k': 'erase', 'i': n})
        elif r < 0.8:
            out.append({'k': 'setterm', 'i': n, 'text': rnd.choice(['термин', 'новый @{$[%d]|nomn,sing}' % rnd.randrange(12), ''])})
        elif r < 0.88:
            out.append({'k': 'setalias', 'i': n, 'alias': rnd.choice(['X7', 'D7', 'X11', 'D11', 'S7'])})
        elif r < 0.94:
            out.append({'k': 'move', 'i': n, 'before': rnd.randrange(12)})
        else:
            out.append({'k': 'setconv', 'i': n, 'text': 'uses $[%d]' % rnd.randrange(12)})
    return out


def history(rnd, hist_id, length):
    ops = [{'op': 'env.processor', 'mode': 'default'}, {'op': 'form.seed', 'seed': hist_id}, {'op': 'oss.reset'}]
    shape = p12.make_shape(rnd)
    directed = rnd.random() < 0.8
    nbase = rnd.choice([2, 2, 3, 4])
    kinds = []
    for _ in range(nbase):
        ops.append({'op': 'oss.op', 'k': 'base'})
        kinds.append('base')
    for i in range(nbase):
        if directed or rnd.random() < 0.9:
            ops.append({'op': 'oss.op', 'k': 'connect', 'p': i, 'schema': doc_schema(rnd, shape if rnd.random() < 0.8 else p12.make_shape(rnd))})

    def pick(kind=None):
        cand = [i for i, x in enumerate(kinds) if kind is None or x == kind]
        return rnd.choice(cand) if cand else rnd.randrange(len(kinds) + 1)

    def add_operation():
        if directed and rnd.random() < 0.85:
            a = pick('op') if 'op' in kinds and rnd.random() < 0.6 else pick('base')
            b = pick()
            if a == b:
                b = (a + 1) % len(kinds)
        else:
            a, b = rnd.randrange(len(kinds)), rnd.randrange(len(kinds))
        ops.append({'op': 'oss.op', 'k': 'operation', 'p1': a, 'p2': b})
        if a != b:
            kinds.append('op')

    def init(p):
        like = rnd.choice([0, 0.4, 0.8])
        pairs = [[i, i] for i in range(len(shape)) if rnd.random() < like] + [[rnd.randrange(10), rnd.randrange(10)] for _ in range(rnd.choice([0, 0, 0, 1]))]
        ops.append({'op': 'oss.op', 'k': 'init', 'p': p, 'type': rnd.choice(['merge', 'merge', 'synt']) if directed else rnd.choice(['merge', 'synt', 'synt']), 'pairs': pairs})

    for _ in range(rnd.choice([1, 2, 3])):
        add_operation()
    if directed:
        for i, x in enumerate(kinds):
            if x == 'op':
                init(i)
        if rnd.random() < 0.5:
            ops.append({'op': 'oss.op', 'k': 'executeall'})
        else:
            for i, x in enumerate(kinds):
                if x == 'op':
                    ops.append({'op': 'oss.op', 'k': 'execute', 'p': i, 'auto': False})
    for _ in range(length):
        r = rnd.random()
        anyp = rnd.randrange(len(kinds) + 1)
        if r < 0.025 and directed:
            # the result document refuses to be written (read-only file) while the operation is out of date; then other
            # executions / re-checks happen; later the document becomes writable again
            p_op, p_base = pick('op'), pick('base')
            ops.append({'op': 'oss.op', 'k': 'edit', 'p': p_base, 'edits': random_edits(rnd, additions=True), 'save': True, 'open': rnd.random() < 0.5})
            ops.append({'op': 'oss.op', 'k': 'readonly', 'p': p_op, 'on': True})
            ops.append({'op': 'oss.op', 'k': 'execute', 'p': p_op, 'auto': rnd.random() < 0.5})
            for _ in range(rnd.choice([1, 2])):
                ops.append(rnd.choice([{'op': 'oss.op', 'k': 'executeall'}, {'op': 'oss.op', 'k': 'execute', 'p': pick('op'), 'auto': True},
                                       {'op': 'oss.op', 'k': 'isexecutable', 'p': p_op}, {'op': 'oss.op', 'k': 'isexecutable', 'p': p_op},
                                       {'op': 'oss.op', 'k': 'open', 'p': p_op}, {'op': 'oss.op', 'k': 'execute', 'p': p_op, 'auto': False}]))
            if rnd.random() < 0.7:
                ops.append({'op': 'oss.op', 'k': 'readonly', 'p': p_op, 'on': False})
        elif r < 0.22:
            ops.append({'op': 'oss.op', 'k': 'execute', 'p': pick('op') if directed and rnd.random() < 0.85 else anyp, 'auto': rnd.random() < 0.3})
        elif r < 0.27:
            ops.append({'op': 'oss.op', 'k': 'executeall'})
        elif r < 0.35:
            init(pick('op') if directed and rnd.random() < 0.85 else anyp)
        elif r < 0.66:
            if directed and rnd.random() < 0.9:
                on_result = rnd.random() < 0.4
                p = pick('op' if on_result else 'base')
                ops.append({'op': 'oss.op', 'k': 'edit', 'p': p, 'edits': random_edits(rnd, additions=on_result or rnd.random() < 0.3), 'save': rnd.random() < 0.7, 'open': rnd.random() < 0.5})
            else:
                ops.append({'op': 'oss.op', 'k': 'edit', 'p': anyp, 'edits': random_edits(rnd, additions=rnd.random() < 0.5), 'save': rnd.random() < 0.6, 'open': rnd.random() < 0.3})
        elif r < 0.74:
            ops.append({'op': 'oss.op', 'k': 'save', 'p': anyp})
        elif r < 0.77:
            p_ = pick('base') if directed and rnd.random() < 0.6 else anyp
            ops.append({'op': 'oss.op', 'k': 'close', 'p': p_, 'save': rnd.random() < 0.6})
            if rnd.random() < 0.5:
                # reopened later and the change reported by the source manager
                ops.append({'op': 'oss.op', 'k': 'open', 'p': p_})
                ops.append({'op': 'oss.op', 'k': 'announce', 'p': p_})
        elif r < 0.78:
            ops.append({'op': 'oss.op', 'k': 'isexecutable', 'p': anyp})
        elif r < 0.79:
            ops.append({'op': 'oss.op', 'k': 'announce', 'p': anyp})
        elif r < 0.81:
            ops.append({'op': 'oss.op', 'k': 'open', 'p': anyp})
        elif r < 0.87:
            add_operation()
            if directed and kinds[-1] == 'op' and rnd.random() < 0.8:
                init(len(kinds) - 1)
        elif r < 0.90:
            ops.append({'op': 'oss.op', 'k': 'base'})
            kinds.append('base')
            ops.append({'op': 'oss.op', 'k': 'connect', 'p': len(kinds) - 1, 'schema': doc_schema(rnd, shape)})
        elif r < 0.94:
            ops.append({'op': 'oss.op', 'k': 'erase', 'p': (len(kinds) - 1 if rnd.random() < 0.4 else anyp) if rnd.random() < 0.9 else {'raw': 424242}})
        elif r < 0.97:
            ops.append({'op': 'oss.op', 'k': 'reload', 'seed': rnd.randrange(1 << 30)})
            if rnd.random() < 0.6:
                # a leaf erased right after a reload: the loaded graph rows are in document order, not creation order
                ops.append({'op': 'oss.op', 'k': 'erase', 'p': pick('op')})
        else:
            ops.append({'op': 'oss.op', 'k': 'connect', 'p': anyp if not directed or rnd.random() < 0.3 else pick('base'), 'schema': doc_schema(rnd, shape)})
    ops.append({'op': 'oss.drop'})
    return core.case(ops, kind='history', directed=directed)


def structural(snap):
    bad = []
    picts = snap['picts']
    if snap['size'] != len(picts):
        bad.append(('size', f"size() = {snap['size']} but iteration yields {len(picts)} pictograms"))
    seen_pos = {}
    for pid, p in picts.items():
        if p['pos'] is None:
            bad.append(('no-grid-cell', f'pictogram {pid} has no grid cell'))
        else:
            pos = tuple(p['pos'])
            if pos in seen_pos:
                bad.append(('cell-shared', f'pictograms {seen_pos[pos]} and {pid} share the cell {pos}'))
            seen_pos[pos] = pid
            if p.get('cell_owner') != int(pid):
                bad.append(('cell-owner', f"cell {pos} of {pid} is owned by {p.get('cell_owner')}"))
        if not p['has_handle']:
            bad.append(('no-source-handle', f'pictogram {pid} has no source handle'))
        par = p['parents']
        if p['is_operation']:
            if len(par) != 2 or par[0] == par[1] or any(str(x) not in picts for x in par):
                bad.append(('operation-parents', f'operation {pid} has parents {par}'))
        elif par:
            bad.append(('base-with-parents', f'base pictogram {pid} has parents {par}'))
        for c in p['children']:
            if str(c) not in picts or int(pid) not in picts[str(c)]['parents']:
                bad.append(('children-vs-parents', f'{pid} lists child {c} which does not list it as a parent'))
    if len(snap['cells']) != len(picts) or any(str(c[2]) not in picts for c in snap['cells']):
        bad.append(('grid-vs-pictograms', f"grid cells {snap['cells']} vs pictograms {sorted(picts)}"))
    edges = sorted((c, p) for c, p in snap['edges'])
    want = sorted((int(pid), x) for pid, p in picts.items() for x in p['parents'])
    if edges != want:
        bad.append(('edge-list', f'edge list {edges} vs parent lists {want}'))
    # acyclic
    state = {}

    def visit(u):
        state[u] = 1
        for v in picts.get(u, {}).get('parents', []):
            v = str(v)
            if state.get(v) == 1:
                return False
            if v not in state and not visit(v):
                return False
        state[u] = 2
        return True
    for u in picts:
        if u not in state and not visit(u):
            bad.append(('parent-cycle', f"parent relation has a cycle through {u}: {snap['edges']}"))
            break
    return bad


def formal(data, tracked_only=True):
    return [(it['alias'], it['type'], it['def']) for it in data['items'] if it.get('tracked') or not tracked_only]


def fingerprint(data):
    """formal content of a document: what the property calls the formal content of a source"""
    if data is None:
        return None
    return tuple(sorted((it['alias'], it['type'], it['def']) for it in data['items']))


def skeleton(snap):
    return {pid: (p['parents'], p['is_operation'], p.get('op_type'), p.get('pairs'), p['pos'], p.get('doc'), p.get('translations')) for pid, p in snap['picts'].items()}


def judge(res, cs, cr):
    if not core.std_death_checks(res, PROP, cs, cr):
        return
    prev = None
    executed = False
    nontrivial = False
    trace = []
    foreign = set()      # operation pictograms whose document was attached by the user (not produced by the operation)
    built_from = {}      # operation -> formal fingerprints of its parents' announced content when its result was (re)built
    for idx, (op, ev) in enumerate(zip(cs['ops'], cr.events)):
        if op['op'] not in ('oss.op', 'oss.reset') or 'snap' not in ev:
            continue
        k = op.get('k', 'reset')
        snap = ev['snap']
        trace.append({x: y for x, y in op.items() if x not in ('op', 'schema', 'edits')})
        res.cover('op:' + k)
        bad = structural(snap)
        res.count('judged', 4 * len(snap['picts']))
        bad = [(f'structure-{a}', b) for a, b in bad]
        before = prev
        prev = snap
        ret = ev.get('ret')
        if before is not None:
            pid = ev.get('pid')
            if k == 'erase' and pid is not None:
                existed = str(pid) in before['picts']
                had_children = existed and bool(before['picts'][str(pid)]['children'])
                if ret is True:
                    if not existed or had_children:
                        bad.append(('erase-non-leaf', f"Erase({pid}) succeeded although it {'had children ' + str(before['picts'][str(pid)]['children']) if existed else 'did not exist'}"))
                    if str(pid) in snap['picts'] or any(pid in e for e in snap['edges']) or any(c[2] == pid for c in snap['cells']):
                        bad.append(('erased-still-visible', f'erased pictogram {pid} is still visible'))
                    res.cover('erase:leaf')
                else:
                    if skeleton(snap) != skeleton(before):
                        bad.append(('refused-erase-changed', f'Erase({pid}) was refused but the schema changed'))
                    if had_children:
                        res.cover('erase:refused-non-leaf')
            if k == 'reload':
                if skeleton(snap) != skeleton(before):
                    diff = [p for p in set(skeleton(snap)) | set(skeleton(before)) if skeleton(snap).get(p) != skeleton(before).get(p)]
                    bad.append(('reload-differs', f'after save + reload (items shuffled) pictograms {diff} differ: {[(skeleton(before).get(p), skeleton(snap).get(p)) for p in diff[:2]]}'))
            if k == 'operation' and ret is None and ev.get('args') and None not in ev['args']:
                a1, a2 = ev['args']
                if a1 != a2 and str(a1) in before['picts'] and str(a2) in before['picts']:
                    bad.append(('operation-refused', f'InsertOperation({a1}, {a2}) on two distinct existing pictograms refused'))
            if k == 'connect' and ret is True and pid is not None and str(pid) in before['picts'] and before['picts'][str(pid)]['is_operation']:
                foreign.add(str(pid))
                res.cover('connect:document-attached-to-operation')
            if k == 'execute' and ret is True and pid is not None and str(pid) in foreign:
                res.count('unspecified')
            elif k == 'execute' and ret is True and pid is not None:
                executed = True
                res.cover('execute:ok')
                p = snap['picts'][str(pid)]
                ref = ev.get('ref')
                if ref is None or 'result' not in ref or 'data' not in p:
                    bad.append(('execute-without-result', f"Execute({pid}) succeeded but {'no reference synthesis is possible' if not ref or 'result' not in ref else 'no result is stored'}"))
                else:
                    res.count('judged', 2)
                    if formal(p['data']) != formal(ref['result'], False):
                        bad.append(('result-vs-synthesis', f"after Execute({pid}) the inherited part of the result {formal(p['data'])} differs from the synthesis of the parents' current schemas {formal(ref['result'], False)}"))
                    if p['status'] != 'done':
                        bad.append(('executed-not-done', f"Execute({pid}) succeeded but the status is {p['status']}"))
                    old = ev.get('before', {}).get('data')
                    bp = before['picts'].get(str(pid), {})
                    parents_quiet = all(not before['picts'][str(x)]['is_operation'] or before['picts'][str(x)]['status'] == 'done' for x in p['parents'] if str(x) in before['picts'])
                    if old is not None and bp.get('translations') and p.get('translations') and parents_quiet and not bad:
                        bad += additions_check(res, old, p['data'], bp['translations'], p['translations'], pid)
            if k in ('edit', 'save', 'close', 'announce') and snap['announcements'] > before['announcements'] and executed:
                nontrivial = True
        # F2: an operation that reports done was built from the formal content its parents last announced
        for pid, p in snap['picts'].items():
            if 'data' not in p or pid in foreign:
                built_from.pop(pid, None)
                continue
            parents = [snap['picts'].get(str(x), {}) for x in p['parents']]
            # what the result was built from is the parents' content at that moment (it may never have been announced: a
            # document closed with an unsaved edit); what must be noticed is an announcement made AFTER the build
            now = [(fingerprint(x.get('announced')), x.get('announced_count', 0)) for x in parents]
            built = [(fingerprint(x.get('data')), x.get('announced_count', 0)) for x in parents]
            was = before['picts'].get(pid) if before is not None else None
            # the harness document counts result writes: a re-execution is seen even when it reproduces the same content
            # (a status that merely returns to done - after a refused execution, a re-check - is NOT a build)
            rebuilt = (was is None or 'data' not in was or was.get('doc_writes') != p.get('doc_writes') or was.get('doc') != p.get('doc')
                       or pid not in built_from)
            if rebuilt:
                built_from[pid] = built
                continue
            if p['status'] != 'done':
                continue
            if not all(x.get('connected') for x in parents):
                # a parent document the schema is not connected to cannot announce anything to it; staleness is
                # detected from the stored hash when the document is opened again
                res.count('unspecified')
                continue
            res.count('judged')
            res.cover('done-checked-against-announced-parents')
            stale = [(x, a, b) for x, a, b in zip(p['parents'], now, built_from[pid]) if a[1] > b[1] and a[0] is not None and a[0] != b[0]]
            if stale:
                which = [x for x, _a, _b in stale]
                changed = [sorted(set(a[0] or ()) ^ set(b[0] or ())) for _x, a, b in stale]
                bad.append(('done-but-stale', f"operation {pid} still reports done although its parent(s) {which} announced a change of their formal content after it was built: {changed[:1]}"))
        res.count('snapshots')
        if bad:
            what, msg = bad[0]
            res.violation(f'{PROP}/{what}', f'after {trace[-1]} (ret {ret}): {msg}; history {trace[-6:]}', {'ops': cs['ops'][:idx + 1] + [{'op': 'oss.drop'}], 'meta': {'kind': 'history'}})
            break
    res.judged(repr(cs['ops']), nontrivial=nontrivial)
    res.counters['judged'] -= 1
    res.count('histories')
    if nontrivial:
        res.sample({'ops': trace[:10], 'length': len(trace)}, limit=1)


def additions_check(res, old, new, old_tr, new_tr, pid):
    """user additions (untracked constituents of the previous result) must be carried over"""
    bad = []
    old_add = [it for it in old['items'] if not it['tracked']]
    new_add = [it for it in new['items'] if not it['tracked']]
    if not old_add:
        return bad
    res.cover('execute:with-user-additions')
    if len(old_add) != len(new_add):
        return [('additions-lost', f"result of {pid} had user additions {[(a['alias'], a['def']) for a in old_add]}, after re-execution {[(a['alias'], a['def']) for a in new_add]}")]
    # additions keep their identifier when it is free in the new result: match by identifier, the rest by order
    by_uid = {b['uid']: b for b in new_add}
    matched = [by_uid.get(a['uid']) for a in old_add]
    rest = [b for b in new_add if all(m is not b for m in matched)]
    new_add = [m if m is not None else rest.pop(0) for m in matched]
    umap = {}
    ambiguous = set()        # an old result constituent that stood for several operand constituents which now have different images
    for i in range(min(len(old_tr), len(new_tr))):
        nt = {k: v for k, v in new_tr[i]}
        for k, v in old_tr[i]:
            if k in nt:
                if v in umap and umap[v] != nt[k]:
                    ambiguous.add(v)
                umap[v] = nt[k]
    old_alias = {it['uid']: it['alias'] for it in old['items']}
    new_alias = {it['uid']: it['alias'] for it in new['items']}
    amap = {old_alias[o]: new_alias[n] for o, n in umap.items() if o in old_alias and n in new_alias}
    for a, b in zip(old_add, new_add):
        amap[a['alias']] = b['alias']
    old_names = set(old_alias.values())
    forward = False
    for pos, (a, b) in enumerate(zip(old_add, new_add)):
        mentioned = rslex.mentioned(a['def'])
        if any(m in old_names and m not in amap for m in mentioned) or mentioned & {old_alias[u] for u in ambiguous if u in old_alias}:
            res.count('unspecified')      # mentions an inherited constituent that has no image any more
            continue
        later = {x['alias'] for x in old_add[pos + 1:]}
        if mentioned & later:
            forward = True
        want, _ = rslex.translate(a['def'], amap)
        res.count('judged')
        if a['type'] != b['type'] or b['def'] != want:
            bad.append(('addition-rewrite', f"user addition {a['alias']} := {a['def']!r} of result {pid} became {b['alias']} := {b['def']!r}, expected {want!r} under {amap}"))
    if forward:
        res.cover('execute:addition-with-forward-reference')
    return bad


def run_shard(desc, env):
    res = core.ShardResult()
    rnd = env.rng('c19', desc['i'])
    n = 25 if env.tier == 'quick' else 600
    cases = [history(rnd, desc['i'] * 100000 + k, rnd.randint(15, 60)) for k in range(n)]
    for cs, cr in env.execute(cases, chunk=10):
        judge(res, cs, cr)
    return res


def replay(cs, env):
    res = core.ShardResult()
    for c, cr in env.execute([cs]):
        judge(res, c, cr)
    return res


RULE = RULE + ' Operand edits include definition<->convention swaps and definition permutations; result documents can refuse writes (read-only) while IsExecutable / other executions re-check the operation; a build is recognised by a write of the result document only.'
