"""Shared case construction for the parse-level properties (C05, C06, C18, part of C04)."""
import itertools

from . import core
from . import rsgen as rg


def leaf_set(k=0):
    return [rg.N('ID_GLOBAL', 'X1'), rg.N('ID_GLOBAL', 'X2'), rg.N('ID_LOCAL', 'a'), rg.N('ID_GLOBAL', 'S1')][k % 4]


def leaf_logic(k=0):
    return rg.N(['EQUAL', 'IN', 'SUBSET'][k % 3], None, [rg.N('ID_LOCAL', ['a', 'b', 'c'][k % 3]), rg.N('ID_GLOBAL', ['X1', 'S1', 'X2'][k % 3])])


def set_constructors():
    """one representative tree per set-expression constructor, parametrised by its operands"""
    out = {}
    for op in rg.ARITH + rg.SETOPS:
        out[op] = lambda kids, op=op: rg.N(op, None, [kids[0], kids[1]])
    out['DECART'] = lambda kids: rg.N('DECART', None, [kids[0], kids[1]])
    out['DECART3'] = lambda kids: rg.N('DECART', None, [kids[0], kids[1], leaf_set(3)])
    for op in ('CARD', 'BOOL', 'DEBOOL', 'REDUCE', 'BOOLEAN'):
        out[op] = lambda kids, op=op: rg.N(op, None, [kids[0]])
    out['BIGPR'] = lambda kids: rg.N('BIGPR', [1, 2], [kids[0]])
    out['SMALLPR'] = lambda kids: rg.N('SMALLPR', [2], [kids[0]])
    out['FILTER'] = lambda kids: rg.N('FILTER', [1], [kids[0], kids[1]])
    out['FILTER2'] = lambda kids: rg.N('FILTER', [1, 2], [kids[0], kids[1], leaf_set(2)])
    out['NT_TUPLE'] = lambda kids: rg.N('NT_TUPLE', None, [kids[0], kids[1]])
    out['NT_ENUMERATION'] = lambda kids: rg.N('NT_ENUMERATION', None, [kids[0], kids[1]])
    out['NT_FUNC_CALL'] = lambda kids: rg.N('NT_FUNC_CALL', None, [rg.N('ID_FUNCTION', 'F1'), kids[0], kids[1]])
    out['DECL_DOMAIN'] = lambda kids: rg.N('NT_DECLARATIVE_EXPR', None, [rg.N('ID_LOCAL', 'x'), kids[0], leaf_logic()])
    out['REC_SHORT'] = lambda kids: rg.N('NT_RECURSIVE_SHORT', None, [rg.N('ID_LOCAL', 'x'), kids[0], kids[1]])
    out['REC_FULL'] = lambda kids: rg.N('NT_RECURSIVE_FULL', None, [rg.N('ID_LOCAL', 'x'), kids[0], leaf_logic(), kids[1]])
    out['IMP_VALUE'] = lambda kids: rg.N('NT_IMPERATIVE_EXPR', None, [kids[0], rg.N('ITERATE', None, [rg.N('ID_LOCAL', 'x'), kids[1]])])
    out['IMP_ASSIGN'] = lambda kids: rg.N('NT_IMPERATIVE_EXPR', None, [kids[0], rg.N('ASSIGN', None, [rg.N('ID_LOCAL', 'x'), kids[1]])])
    return out


def logic_with_set_operands():
    out = {}
    for op in rg.PREDICATES:
        out[op] = lambda kids, op=op: rg.N(op, None, [kids[0], kids[1]])
    out['QUANT_DOMAIN'] = lambda kids: rg.N('FORALL', None, [rg.N('ID_LOCAL', 'x'), kids[0], leaf_logic()])
    out['PRED_CALL'] = lambda kids: rg.N('NT_FUNC_CALL', None, [rg.N('ID_PREDICATE', 'P1'), kids[0], kids[1]])
    return out


def logic_constructors():
    out = {}
    for op in rg.LOGIC_BINARY:
        out[op] = lambda kids, op=op: rg.N(op, None, [kids[0], kids[1]])
    out['NOT'] = lambda kids: rg.N('NOT', None, [kids[0]])
    out['FORALL'] = lambda kids: rg.N('FORALL', None, [rg.N('ID_LOCAL', 'x'), leaf_set(), kids[0]])
    out['EXISTS'] = lambda kids: rg.N('EXISTS', None, [rg.N('NT_ENUM_DECL', None, [rg.N('ID_LOCAL', 'x'), rg.N('ID_LOCAL', 'y')]), leaf_set(), kids[0]])
    out['DECL_BODY'] = None   # set-valued constructors with a logic slot are handled separately
    return {k: v for k, v in out.items() if v is not None}


def set_with_logic_slot():
    return {
        'DECL_BODY': lambda kids: rg.N('NT_DECLARATIVE_EXPR', None, [rg.N('ID_LOCAL', 'x'), leaf_set(), kids[0]]),
        'REC_COND': lambda kids: rg.N('NT_RECURSIVE_FULL', None, [rg.N('ID_LOCAL', 'x'), leaf_set(), kids[0], leaf_set(1)]),
        'IMP_GUARD': lambda kids: rg.N('NT_IMPERATIVE_EXPR', None, [leaf_set(), kids[0]]),
    }


def matrix_trees():
    """parent constructor x child constructor in every operand position (the bracket-decision table)"""
    trees = []
    setc = set_constructors()
    logs = logic_with_set_operands()
    logc = logic_constructors()
    slot = set_with_logic_slot()
    set_children = {k: v([leaf_set(0), leaf_set(1)]) for k, v in setc.items()}
    logic_children = {k: v([leaf_set(0), leaf_set(1)]) for k, v in logs.items()}
    logic_children.update({k: v([leaf_logic(0), leaf_logic(1)]) for k, v in logc.items()})
    # set parent / set child
    for pname, pf in list(setc.items()) + list(logs.items()):
        for cname, child in set_children.items():
            for pos in (0, 1):
                kids = [leaf_set(2), leaf_set(3)]
                kids[pos] = child
                trees.append((f'{pname}[{pos}]<-{cname}', pf(kids)))
    # logic parent / logic child
    for pname, pf in list(logc.items()) + list(slot.items()):
        for cname, child in logic_children.items():
            for pos in (0, 1):
                kids = [leaf_logic(1), leaf_logic(2)]
                kids[pos] = child
                t = pf(kids)
                trees.append((f'{pname}[{pos}]<-{cname}', t))
    # logic inside set inside logic (two levels)
    for sname, sf in slot.items():
        for cname, child in list(logic_children.items())[:12]:
            trees.append((f'EQUAL<-{sname}<-{cname}', rg.N('EQUAL', None, [sf([child]), leaf_set(1)])))
    # global declarations and function definitions around everything
    extra = []
    for name, t in trees[::7]:
        body = t
        extra.append(('FUNCDEF<-' + name, rg.N('NT_FUNC_DEFINITION', None, [rg.N('NT_ARGUMENTS', None, [
            rg.N('NT_ARG_DECL', None, [rg.N('ID_LOCAL', 'p'), rg.N('BOOLEAN', None, [rg.N('ID_RADICAL', 'R1')])]),
            rg.N('NT_ARG_DECL', None, [rg.N('ID_LOCAL', 'q'), rg.N('ID_GLOBAL', 'X1')])]), body])))
        extra.append(('DEFINE<-' + name, rg.N('PUNC_DEFINE', None, [rg.N('ID_GLOBAL', 'D1'), body])))
    extra.append(('STRUCT', rg.N('PUNC_STRUCT', None, [rg.N('ID_GLOBAL', 'S1'), rg.N('BOOLEAN', None, [rg.N('DECART', None, [leaf_set(0), leaf_set(1)])])])))
    extra.append(('DEFINE-EMPTY', rg.N('PUNC_DEFINE', None, [rg.N('ID_GLOBAL', 'X1')])))
    extra.append(('DEFINE-FUNC', rg.N('PUNC_DEFINE', None, [rg.N('ID_FUNCTION', 'F1'), rg.N('NT_FUNC_DEFINITION', None, [
        rg.N('NT_ARGUMENTS', None, [rg.N('NT_ARG_DECL', None, [rg.N('ID_LOCAL', 'a'), rg.N('ID_GLOBAL', 'X1')])]), leaf_set(2)])])))
    # leaves of every kind in a set position and tuple-pattern binders
    for lf in (rg.N('ID_LOCAL', 'ξ'), rg.N('ID_LOCAL', 'σ1'), rg.N('LIT_INTEGER', 0), rg.N('LIT_INTEGER', 2147483647), rg.N('LIT_INTSET'),
               rg.N('LIT_EMPTYSET'), rg.N('ID_RADICAL', 'R1'), rg.N('ID_FUNCTION', 'F1'), rg.N('ID_PREDICATE', 'P1')):
        extra.append(('LEAF:' + lf[0], rg.N('EQUAL', None, [lf, leaf_set(1)])))
        extra.append(('LEAF-alone:' + lf[0], lf))
    td = rg.N('NT_TUPLE_DECL', None, [rg.N('ID_LOCAL', 'a'), rg.N('NT_TUPLE_DECL', None, [rg.N('ID_LOCAL', 'b'), rg.N('ID_LOCAL', 'c')])])
    extra.append(('TUPLE-BINDER-Q', rg.N('FORALL', None, [td, leaf_set(3), leaf_logic(0)])))
    extra.append(('TUPLE-BINDER-D', rg.N('NT_DECLARATIVE_EXPR', None, [td, leaf_set(3), leaf_logic(0)])))
    extra.append(('TUPLE-BINDER-R', rg.N('NT_RECURSIVE_SHORT', None, [td, leaf_set(3), leaf_set(0)])))
    extra.append(('TUPLE-BINDER-I', rg.N('NT_IMPERATIVE_EXPR', None, [leaf_set(2), rg.N('ITERATE', None, [td, leaf_set(3)]), rg.N('ASSIGN', None, [td, leaf_set(0)])])))
    extra.append(('ENUM-BINDER', rg.N('EXISTS', None, [rg.N('NT_ENUM_DECL', None, [rg.N('ID_LOCAL', 'a'), td, rg.N('ID_LOCAL', 'z')]), leaf_set(3), leaf_logic(0)])))
    for n in (1, 2, 3):
        extra.append((f'BOOLEAN-chain{n}', rg.N('IN', None, [leaf_set(2), _chain(n)])))
    return trees + extra


def _chain(n):
    t = leaf_set(0)
    for _ in range(n):
        t = rg.N('BOOLEAN', None, [t])
    return t


def parse_case(tree, syntax, rnd, style, label, ranges=0, gen=True, extra_meta=None):
    """render an abstract tree and build the rs.parse op; Greek locals are transliterated for ASCII"""
    src = rg.map_locals(tree, (lambda x: x) if syntax == 'MATH' else rg.translit)   # always a fresh copy (no shared nodes)
    text, spans = rg.render(src, syntax, rnd, **style)
    op = {'op': 'rs.parse', 'text': text, 'syntax': syntax, 'gen': gen}
    span_tree = span_dump(src, spans)
    if ranges:
        n = len(text)
        rs = []
        for _ in range(ranges):
            s = rnd.randint(0, max(n - 1, 0))
            f = min(n, s + rnd.choice([0, 0, 1, 1, 2, 3, 5, 8]))
            rs.append([s, f])
        op['ranges'] = rs
    meta = {'kind': 'parse', 'label': label, 'syntax': syntax, 'tree': src, 'spans': span_tree, 'text': text}
    if extra_meta:
        meta.update(extra_meta)
    return core.case([op], **meta)


def span_dump(node, spans):
    sp = spans.get(id(node))
    me = None
    if sp is not None:
        me = {'s': sp['start'], 'e': sp['end'], 'w': sp['wraps']}
        if 'outer' in sp:
            me['o'] = list(sp['outer'])
    return [me, [span_dump(c, spans) for c in node[2]]]
