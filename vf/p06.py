"""C06 — the parser builds the grammar's tree; node ranges delimit their source text."""
from . import core
from . import rsgen as rg
from . import rscommon as rc

PROP = 'C06'
RULE = ('abstract syntax trees (systematic parent-constructor x child-constructor x operand-position matrix, '
        'associativity chains, plus seeded random trees of depth <= 6 over the whole grammar) are rendered to MATH and '
        'ASCII text by a printer that encodes the documented precedence/associativity/bracket rules, with random '
        'admissible redundant parentheses, whitespace and newlines (multi-byte symbols precede most nodes in MATH); '
        'the real parser must return exactly the abstract tree, every node range must equal the span of its rendering '
        '(including directly wrapping parentheses), and FindMinimalNode must return the innermost reference node for '
        'random cursor ranges. Distinct = hash of the rendered text; non-trivial = tree has >= 4 nodes.')
ASSUMPTIONS = [
    'the renderer in vf/rsgen.py is the grammar specification (precedence levels, left associativity, product '
    'flattening only without parentheses, quantifier/negation scope = next non-binary formula, admissible parentheses)',
    'a node wrapped in two or more redundant parenthesis pairs may report either the innermost or the outermost pair '
    '(unspecified); FindMinimalNode is not judged on such renderings',
]
MIN_JUDGED = {'quick': 10000, 'thorough': 200000}
NSH = 32

STYLES = [
    dict(ws=0.0, nl=0.0, parens=0.0, short_decl=0.0),
    dict(ws=0.3, nl=0.0, parens=0.0, short_decl=0.5),
    dict(ws=0.3, nl=0.3, parens=0.25, short_decl=0.5),
    dict(ws=0.1, nl=0.1, parens=0.5, short_decl=0.3),
]


def chains():
    out = []
    a, b, c, d = (rg.N('ID_LOCAL', x) for x in 'abcd')
    for ops in (rg.ARITH, rg.SETOPS + ['DECART']):
        for o1 in ops + (['UNION'] if ops is rg.ARITH else ['PLUS', 'MULTIPLY']):
            for o2 in ops + (['UNION'] if ops is rg.ARITH else ['PLUS', 'MULTIPLY']):
                if o1 == 'DECART' and o2 == 'DECART':
                    out.append(('chain:DECART-flat', rg.N('DECART', None, [a, b, c])))
                    out.append(('chain:DECART-left', rg.N('DECART', None, [rg.N('DECART', None, [a, b]), c])))
                    out.append(('chain:DECART-right', rg.N('DECART', None, [a, rg.N('DECART', None, [b, c])])))
                    continue
                out.append((f'chain:{o1}-{o2}-left', rg.N(o2, None, [rg.N(o1, None, [a, b]), c])))
                out.append((f'chain:{o1}-{o2}-right', rg.N(o1, None, [a, rg.N(o2, None, [b, c])])))
                out.append((f'chain:{o1}-{o2}-{o1}', rg.N(o1, None, [rg.N(o2, None, [rg.N(o1, None, [a, b]), c]), d])))
    pa, pb, pc = rc.leaf_logic(0), rc.leaf_logic(1), rc.leaf_logic(2)
    for o1 in rg.LOGIC_BINARY:
        for o2 in rg.LOGIC_BINARY:
            out.append((f'lchain:{o1}-{o2}-left', rg.N(o2, None, [rg.N(o1, None, [pa, pb]), pc])))
            out.append((f'lchain:{o1}-{o2}-right', rg.N(o1, None, [pa, rg.N(o2, None, [pb, pc])])))
        out.append((f'lchain:NOT-{o1}', rg.N(o1, None, [rg.N('NOT', None, [pa]), pb])))
        out.append((f'lchain:NOT({o1})', rg.N('NOT', None, [rg.N(o1, None, [pa, pb])])))
        out.append((f'lchain:Q-{o1}', rg.N(o1, None, [rg.N('FORALL', None, [rg.N('ID_LOCAL', 'x'), rc.leaf_set(), pa]), pb])))
        out.append((f'lchain:Q({o1})', rg.N('FORALL', None, [rg.N('ID_LOCAL', 'x'), rc.leaf_set(), rg.N(o1, None, [pa, pb])])))
        out.append((f'lchain:{o1}-Q-{o1}', rg.N(o1, None, [rg.N(o1, None, [pa, rg.N('EXISTS', None, [rg.N('ID_LOCAL', 'x'), rc.leaf_set(), pb])]), pc])))
    return out


def shards(tier, seed):
    return [{'kind': 'matrix', 'i': i} for i in range(NSH)] + [{'kind': 'random', 'i': i} for i in range(NSH)]


def gen_cases(desc, env):
    rnd = env.rng('c06', desc['kind'], desc['i'])
    cases = []
    if desc['kind'] == 'matrix':
        trees = rc.matrix_trees() + chains()
        reps = 1 if env.tier == 'quick' else 4
        n = 0
        for label, tree in trees:
            for syntax in ('MATH', 'ASCII'):
                for si, style in enumerate(STYLES):
                    for _ in range(reps if si else 1):
                        if n % NSH == desc['i']:
                            cases.append(rc.parse_case(tree, syntax, rnd, style, label, ranges=3, gen=False))
                        n += 1
    else:
        count = 220 if env.tier == 'quick' else 6000
        g = rg.SynGen(rnd)
        for _ in range(count):
            depth = rnd.choice([2, 3, 3, 4, 4, 5, 6])
            tree = g.expression(depth)
            if rg.count_nodes(tree) > 160:
                continue
            syntax = rnd.choice(['MATH', 'MATH', 'ASCII'])
            style = rnd.choice(STYLES)
            cases.append(rc.parse_case(tree, syntax, rnd, style, 'random', ranges=4, gen=False))
    # normal usage keeps one Parser alive: a third of the inputs is parsed by a parser that has already seen a multi-line,
    # multi-byte MATH text (and an ASCII one); tree and ranges must be the same as with a fresh parser
    for k, cs in enumerate(cases):
        if k % 3 == 0:
            warm = [{'op': 'rs.parse', 'text': rnd.choice(WARMUP), 'syntax': 'MATH', 'obj': 'h', 'gen': False},
                    {'op': 'rs.parse', 'text': 'X1 \\union\nX2', 'syntax': 'ASCII', 'obj': 'h', 'gen': False}]
            cs['ops'] = warm[:rnd.choice([1, 2])] + [dict(cs['ops'][0], obj='h')]
            cs['meta']['reused_parser'] = True
    return cases


WARMUP = ['X1∪\n) X2', 'X1\n# X2\nX3', '∀ξ∈X1\n ξ ξ\n&1=1', 'X1∪\nX2\n∩X3', 'ℬ(X1)×\n\nℬ(X2)', '∀ξ∈X1\n ξ∈X1', 'D{ξ∈X1 |\n∃α∈X1 α=ξ}\n', '((', 'X1∪\n']


def compare(res, cs, ev, lib, ref, spans, path, bad, ambiguous):
    """parallel walk: lib = library dump node, ref = abstract node, spans = [me, [children]]"""
    d = lib.get('d')
    if isinstance(d, dict) and 'hex' in d:
        d = bytes.fromhex(d['hex']).decode('utf-8', 'replace')
    if lib['id'] != ref[0] or d != ref[1] or len(lib.get('c', [])) != len(ref[2]):
        bad.append(('tree', f"at {path or 'root'}: parser built {lib['id']}:{d} with {len(lib.get('c', []))} children, grammar says {ref[0]}:{ref[1]} with {len(ref[2])}"))
        return
    me = spans[0]
    if me is not None:
        got = lib['p']
        exp = [me['s'], me['e']]
        if me['w'] >= 2:
            ambiguous.append(True)
            if got != exp and got != me['o']:
                bad.append(('range', f"at {path or 'root'} ({ref[0]}): range {got}, expected {exp} or {me['o']}"))
        elif got != exp:
            bad.append(('range', f"at {path or 'root'} ({ref[0]}): range {got}, expected {exp}"))
    for k, (lc, rc_, sc) in enumerate(zip(lib.get('c', []), ref[2], spans[1])):
        compare(res, cs, ev, lc, rc_, sc, f'{path}/{k}:{rc_[0]}', bad, ambiguous)


def innermost(ref, spans, rng_):
    """reference for FindMinimalNode: deepest node whose span contains the range (library Contains semantics)"""
    s, f = rng_
    me = spans[0]
    if me is None:
        return None
    start, end = me['s'], me['e']
    inside = (start <= s and end >= f) if s != f else (start <= f < end)
    if not inside:
        return None
    for child, sc in zip(ref[2], spans[1]):
        r = innermost(child, sc, rng_)
        if r is not None:
            return r
    return (ref[0], [start, end])


def judge(res, cs, cr):
    if not core.std_death_checks(res, PROP, cs, cr):
        return
    meta = cs['meta']
    ev = cr.events[-1]
    tree = meta['tree']
    text = meta['text']
    bad = []
    if not ev['ok']:
        bad.append(('rejected', f"valid expression rejected: errors {ev['errors']}"))
    else:
        ambiguous = []
        compare(res, cs, ev, ev['tree'], tree, meta['spans'], '', bad, ambiguous)
        res.count('judged', rg.count_nodes(tree) * 2)
        if ev['syn'] != meta['syntax']:
            bad.append(('syntax-field', f"parser.syntax = {ev['syn']}"))
        if not bad and not ambiguous and 'found' in ev:
            for rng_, got in zip(cs['ops'][-1]['ranges'], ev['found']):
                exp = innermost(tree, meta['spans'], rng_)
                g = None if got is None else (got['id'], got['p'])
                e = None if exp is None else (exp[0], exp[1])
                if g != e:
                    bad.append(('findminimal', f'FindMinimalNode({rng_}) -> {g} expected {e}'))
                res.count('judged')
                res.count('findminimal_queries')
        elif ambiguous:
            res.count('unspecified')
    for what, msg in bad[:2]:
        res.violation(f'{PROP}/parse/{what}', f"[{meta['label']}] {meta['syntax']} text {text!r}: {msg}", cs)
    for op_ in rg.ops_in(tree):
        res.cover(op_)
    res.cover('syntax:' + meta['syntax'])
    res.judged(meta['syntax'] + ':' + text, nontrivial=rg.count_nodes(tree) >= 4)
    res.count('renderings')
    if rg.count_nodes(tree) >= 8:
        res.sample({'label': meta['label'], 'syntax': meta['syntax'], 'text': text, 'tree': rg.show(tree)[:300]}, limit=1)


def run_shard(desc, env):
    res = core.ShardResult()
    for cs, cr in env.execute(gen_cases(desc, env), chunk=400):
        judge(res, cs, cr)
    return res


def replay(cs, env):
    res = core.ShardResult()
    for c, cr in env.execute([cs]):
        judge(res, c, cr)
    return res
