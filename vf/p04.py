"""C04 — analysis of arbitrary input is total, memory-safe and reports failure faithfully."""
import json
import random
import zipfile

from . import core
from . import rsgen as rg
from . import rstyped as ty
from . import rstypes as rt
from . import p17

PROP = 'C04'
RULE = ('four generators: (1) valid expressions from the grammar-aware generator, mutated at byte, token and structure '
        'level (drop/duplicate/swap tokens, unbalanced brackets, token kinds in foreign positions, identifiers of every '
        'constituent kind incl. logic-typed and function names, Pr0/pr00/Fi0, 20-digit integers, lone literals, deep '
        'nesting) plus a fixed hostile list; (2) raw bytes: invalid UTF-8, overlong forms, lone continuation bytes, NUL, '
        'CR, tabs; (3) reference texts incl. invalid UTF-8 through Reference/RefsManager/ManagedText; (4) JSON documents: '
        'the repository sample schema and synthetic schemas, pristine and mutated structurally and bytewise, through '
        'the pyconcept entry points (real pyconcept.cpp) and RSFormJA. Every text goes through Parser::Parse under the '
        'hints MATH/ASCII/UNDEF, Auditor CheckType+CheckValue and Interpreter::Evaluate against generated contexts, '
        'ConvertTo and api::ParseExpression. Monitors: sanitizer death, escaped exception (only the JSON exception on a '
        'non-pristine document is allowed), hang, "failed <=> at least one critical error" per call, and every error '
        'position within [0, length of the input in the unit of its syntax]. Distinct = hash of (entry, input).')
ASSUMPTIONS = [
    'inputs are bounded: <= 4 KiB, nesting <= 200 (quick) / 1500 (thorough); out-of-memory is not injected',
    'position unit: code points for MATH, bytes for ASCII; for input that is not valid UTF-8 the byte length is the bound',
    'a per-op watchdog (20 s quick / 60 s thorough, re-run once alone) decides hangs; iteration limits of the evaluator '
    'are documented resource limits, so evaluation inputs that merely reach them are not generated',
]
MIN_JUDGED = {'quick': 20000, 'thorough': 400000}
NSH = 32

HOSTILE = [
    '', ' ', '\n', '∅', 'Z', 'R1', 'X1', 'F1', 'P1', 'A1', 'Pr0(X1)', 'pr0(X1)', 'Fi0[X1](S1)', 'pr00(a)', 'Pr0,0(S1)', 'Pr1,0(S1)',
    'Fi1,0[X1](S1)', 'Pr(X1)', 'pr(X1)', '99999999999999999999', '2147483648', 'card(99999999999999999999)', 'X1:==', 'X1::=',
    ':==X1', 'X1:==X1:==X1', 'D1:==D1', 'F1:==[a∈X1] a', 'F1:==[a∈R1] a', '[a∈X1]', '[a∈X1] ', '[] a', '[a] a', '[a∈] a', '[a∈X1,] a',
    '∀x∈X1', '∀∈X1 1=1', '∀x X1 1=1', '∀x,∈X1 1=1', '∀(x,)∈X1 1=1', '∀(x,1)∈X1 1=1', '∀x∈X1 ∀x∈X1 x=x', 'D{x∈X1|}', 'D{∈X1|1=1}',
    'D{x∈X1 1=1}', 'D{(x,(y,))∈S1|1=1}', 'R{x:=X1|}', 'R{x:=X1}', 'R{x:=X1|x|x|x}', 'I{x|}', 'I{|x:∈X1}', 'I{x|x:∈X1;;}', 'x:∈X1',
    'x:=1', '(x:∈X1)', 'I{x | (x:∈X1)}', 'I{x | ¬x:∈X1}', 'I{x | x:∈X1 & 1=1}', '()', '(,)', '(X1,)', '{}', '{,}', '{X1,}', '((X1))',
    '(X1)', '((1=1))', '(¬1=1)', '¬¬1=1', '1=1=1', '1<2<3', 'X1∪', '∪X1', 'X1∪∪X1', 'X1××X1', 'ℬ', 'ℬℬ', 'ℬ()', 'ℬ(X1', 'ℬX1', 'card',
    'card()', 'card(X1', 'card X1', 'debool', 'red(', 'bool()', 'F1[', 'F1[]', 'F1[X1', 'F1[X1,]', 'F1[X1][X1]', 'P1[X1]=1', 'Fi1[](S1)',
    'Fi1[X1]()', 'Fi1[X1]', 'Fi1(S1)', 'Fi1,2[X1](S1)', 'Fi1,2[X1,X1,X1](S1)', 'A1=A1', '1+A1', '(A1,A1)', 'S1::=A1', 'card(A1)',
    'A1∪X1', 'F1[A1]', '{A1}', 'ℬ(A1)', 'A1×A1', 'debool(A1)', 'I{A1 | x:∈X1}', 'R{x:=A1 | x}', '∀x∈A1 1=1', 'x∈A1', 'A1∈X1', 'pr1(A1)',
    'Pr1(A1)', 'red(A1)', 'bool(A1)', 'A1<1', 'F1', 'P1', 'F1=F1', 'P1[F1]', 'F1[F1]', 'F1[P1]', 'X1[X1]', 'D1[X1]', 'R1[X1]', 'R0', 'R01',
    'D', 'R', 'I', 'B', 'B(X1)', 'Dx', 'Rx', 'Ix', 'Prx', 'Pr1x(S1)', '\\', '\\\\', 'X1\\', '\\X1', 'a\\in X1', '1 \\eq 1', '\\A x \\in X1 1 \\eq 1',
    '\\foo', '\\less', '\\in', '\\', '\\in\\in', 'x \\in', '\\A', '\\A x', '{} \\eq {}', '{}{}', '{{}}', 'B(B({}))', 'X1 * X1 * X1',
    'X1 \\union', 'a \\assign 1', 'R{a \\assign {} | a \\union {Pr1(a)}}', 'R{a:=∅ | a∪{Pr1(a)}}', 'R{a:=∅ | Fi1[X1](a)}', 'R{a:=∅|a∪{a}}',
    '1 \r\n= 1', '1\t=\t1', '1\r=1', '\x00', '1=1\x00', 'X1\x00X1', '1 = 1 \x00', '﻿1=1', '1=1 ', '１=１', 'Ｘ1=X1', 'α=α', 'αβγ∈X1',
    '∀α∈X1 α=α', 'Α1=Α1', 'ω∈ω', 'ϊ=1', 'ς=ς', 'x_1=x_1', '_=_', '__var1=1', '@abc=1', 'x@=1', 'x#=1', 'x$=1', '"x"=1', "x'=1", 'x`=1',
    'card(X1)card(X1)', 'X1 X1', '1 1', 'x y', 'X1X1', '1X1', 'x1X1', 'X1x', 'Z1', 'ZZ', 'Z∪Z', 'card(Z)', '1∈Z', 'Z∈Z', 'ℬ(Z)', 'Z×Z',
    'D{x∈Z | x>0}', '∀x∈Z x=x', 'I{x | x:∈Z}', 'R{x:=Z | x}', 'debool(Z)', 'red(ℬ(Z))', '{Z}', '(Z,Z)', 'Pr1(Z×Z)', 'bool(Z)',
]


def shards(tier, seed):
    return ([{'kind': 'expr', 'i': i} for i in range(NSH)] + [{'kind': 'bytes', 'i': i} for i in range(8)] +
            [{'kind': 'refs', 'i': i} for i in range(8)] + [{'kind': 'json', 'i': i} for i in range(8)] + [{'kind': 'json-model', 'i': i} for i in range(4)] + [{'kind': 'json-oss', 'i': i} for i in range(4)])


# ------------------------------------------------------------------ helpers

def is_utf8(b):
    try:
        b.decode('utf-8')
        return True
    except UnicodeDecodeError:
        return False


def enc(b):
    """bytes -> driver argument (utf-8 string or hex)"""
    if is_utf8(b) and '\x00' not in b.decode('utf-8'):
        return b.decode('utf-8')
    return {'hex': b.hex()}


def ulen(b, syntax):
    if syntax == 'ASCII' or not is_utf8(b):
        return len(b)
    return len(b.decode('utf-8'))


def expr_ops(b, has_ctx=True, obj=None):
    t = enc(b)
    ops = []
    extra = {'obj': obj} if obj else {}
    for syn in ('MATH', 'ASCII', 'UNDEF'):
        ops.append(dict({'op': 'rs.parse', 'text': t, 'syntax': syn, 'gen': False}, **extra))
    if has_ctx:
        for syn in ('MATH', 'ASCII'):
            ops.append(dict({'op': 'rs.check', 'ctx': 'c', 'text': t, 'syntax': syn}, **extra))
        ops.append(dict({'op': 'rs.eval', 'ctx': 'c', 'text': t, 'syntax': 'UNDEF', 'withtype': False}, **extra))
    ops.append({'op': 'rs.convert', 'text': t, 'from': 'MATH'})
    ops.append({'op': 'api.call', 'fn': 'parse_expression', 'text': t})
    return ops


def mutate_text(rnd, text):
    b = bytearray(text.encode('utf-8'))
    k = rnd.randrange(9)
    if not b:
        return bytes(b)
    if k == 0:
        i = rnd.randrange(len(b))
        del b[i:i + rnd.randint(1, 4)]
    elif k == 1:
        i = rnd.randrange(len(b))
        j = min(len(b), i + rnd.randint(1, 6))
        b[i:i] = b[i:j]
    elif k == 2:
        toks = ['(', ')', '{', '}', '[', ']', '|', ',', ';', '∈', '∀', '¬', '&', '×', 'ℬ', ':=', ':∈', ':==', '::=', 'card', 'Pr1', 'Fi1',
                'D', 'R', 'I', 'Z', '∅', 'X1', 'F1', 'P1', 'A1', 'R1', 'x', '1', '\\in', '\\A', ' ', '\n', '=']
        i = rnd.randrange(len(b) + 1)
        b[i:i] = rnd.choice(toks).encode('utf-8')
    elif k == 3:
        for _ in range(rnd.randint(1, 3)):
            i = rnd.randrange(len(b))
            b[i] = rnd.randrange(256)
    elif k == 4:
        i = rnd.randrange(len(b))
        b = b[:i]
    elif k == 5:
        i = rnd.randrange(len(b) + 1)
        b[i:i] = rnd.choice([b'\xff', b'\xc0\xaf', b'\x80', b'\xe2\x88', b'\xf0\x9f', b'\xed\xa0\x80', b'\xf4\x90\x80\x80', b'\x00', b'\r'])
    elif k == 6:
        # swap two chunks
        i, j = sorted(rnd.sample(range(len(b) + 1), 2))
        m = (i + j) // 2
        b = b[:i] + b[m:j] + b[i:m] + b[j:]
    elif k == 7:
        op, cl = rnd.choice([(b'(', b')'), (b'{', b'}'), (b'[', b']'), ('ℬ('.encode(), b')'), ('¬('.encode(), b')')])
        n = rnd.choice([1, 2, 5, 20, 60])
        b = bytearray(op * n) + b + bytearray(cl * rnd.choice([n, n - 1, n + 1, 0]))
    else:
        i = rnd.randrange(len(b) + 1)
        b[i:i] = rnd.choice(['99999999999999999999', '2147483648', 'Pr0', 'pr0', 'Fi0', 'Pr1,0,2', '0', '00', '007']).encode()
    return bytes(b[:4096])


def synth_doc(rnd, g=None):
    """synthetic rsform document built from a generated context"""
    items = []
    uid = 1
    kinds = [('X1', 'basic', ''), ('X2', 'basic', ''), ('C1', 'constant', ''), ('S1', 'structure', 'ℬ(X1×X1)'), ('S2', 'structure', 'ℬ(X1×ℬ(X2))'),
             ('D1', 'term', 'Pr1(S1)'), ('D2', 'term', 'D{x∈X1 | ∃y∈X1 (x,y)∈S1}'), ('A1', 'axiom', '∀x∈D1 x∈X1'), ('F1', 'function', '[a∈ℬ(R1)] a∪a'),
             ('P1', 'predicate', '[a∈X1, b∈ℬ(X1)] a∈b'), ('T1', 'theorem', 'D1⊆X1'), ('D3', 'term', 'F1[D1]'), ('D4', 'term', 'D9∪X1'), ('D5', 'term', 'card(')]
    for alias, ctype, formal in kinds:
        if rnd.random() < 0.15:
            continue
        items.append({'entityUID': uid if rnd.random() < 0.9 else rnd.choice([0, 1, 2, 2147483647]), 'type': 'constituenta', 'cstType': ctype, 'alias': alias,
                      'convention': rnd.choice(['', 'соглашение', 'X1 is used']),
                      'term': {'raw': rnd.choice(['термин', '', 'term @{X1|nomn,sing}', '@{' + alias + '|nomn}']), 'resolved': '',
                               'forms': [{'text': 'форма', 'tags': 'sing,datv'}] if rnd.random() < 0.2 else []},
                      'definition': {'formal': formal, 'text': {'raw': rnd.choice(['', 'текст @{X1|plur,gent}', '@{-1|x} @{D1|nomn}']), 'resolved': ''}}})
        uid += rnd.randint(1, 1000)
    doc = {'type': 'rsform', 'title': 'T', 'alias': 'A', 'comment': '', 'items': items}
    if rnd.random() < 0.4 and items:
        doc['tracking'] = [{'entityUID': rnd.choice(items)['entityUID'], 'flags': {'mutable': True, 'editTerm': False, 'editDefinition': True, 'editConvention': False}}]
    return doc


def mutate_json(rnd, doc):
    """structural mutation of a JSON document (python object)"""
    d = json.loads(json.dumps(doc))
    paths = []

    def walk(o, p):
        paths.append(p)
        if isinstance(o, dict):
            for k in list(o):
                walk(o[k], p + [k])
        elif isinstance(o, list):
            for k in range(len(o)):
                walk(o[k], p + [k])

    walk(d, [])
    for _ in range(rnd.choice([1, 1, 2, 3])):
        p = rnd.choice(paths)
        if not p:
            continue
        parent = d
        ok = True
        for k in p[:-1]:
            try:
                parent = parent[k]
            except (KeyError, IndexError, TypeError):
                ok = False
                break
        if not ok or not isinstance(parent, (dict, list)):
            continue
        key = p[-1]
        try:
            cur = parent[key]
        except (KeyError, IndexError, TypeError):
            continue
        r = rnd.randrange(7)
        if r == 0:
            if isinstance(parent, dict):
                del parent[key]
            else:
                parent.pop(key)
        elif r == 1:
            parent[key] = rnd.choice([None, 0, -1, 2 ** 40, 1.5, '', 'x', [], {}, True, [[]], 'basic', 'unknown', 4294967295, -2147483649])
        elif r == 2 and isinstance(parent, list):
            parent.insert(key, json.loads(json.dumps(cur)))
        elif r == 3 and isinstance(cur, str):
            parent[key] = cur + rnd.choice(['@{X1|nomn|}', '∀', '\x00', '@{', 'X1', '((((', 'Pr0(X1)', '99999999999999999999'])
        elif r == 4 and isinstance(cur, int) and not isinstance(cur, bool):
            parent[key] = rnd.choice([cur + 1, -cur, 0, 2 ** 31, 2 ** 32 + 5])
        elif r == 5 and isinstance(parent, dict):
            parent[key + '_x'] = cur
        else:
            parent[key] = rnd.choice([[], {}, 'string', 7])
    return d


# ------------------------------------------------------------------ case building

def gen_cases(desc, env):
    rnd = env.rng('c04', desc['kind'], desc['i'])
    quick = env.tier == 'quick'
    cases = []
    kind = desc['kind']
    if kind == 'expr':
        g = ty.TypedGen(rnd)
        ctx = g.make_context()
        ctxop = {'op': 'rs.ctx', 'ctx': 'c', 'spec': ctx.spec()}
        texts = []
        if desc['i'] < 4:
            texts += [t.encode('utf-8') for t in HOSTILE[desc['i']::4]]
        if desc['i'] in (6, 7):
            # systematic families shared with C03/C02 (recursion refinement, value-class matrix, templated / property calls) under
            # their own small context: every one of them must fail exactly when a critical error is logged
            from . import p03
            fixed = p03.refine_cases()[0]
            ctxop = fixed['ops'][0]
            texts = [op['text'].encode('utf-8') for op in fixed['ops'][1:]][desc['i'] - 6::2]
        sg = rg.SynGen(rnd)
        n = 60 if quick else 1500
        for _ in range(n):
            if rnd.random() < 0.5:
                tree = sg.expression(rnd.choice([1, 2, 3, 4]))
            else:
                tree = g.expression(rnd.choice([1, 2, 3]))
            if rg.count_nodes(tree) > 120:
                continue
            syn = rnd.choice(['MATH', 'MATH', 'ASCII'])
            try:
                text, _sp = rg.render(rg.map_locals(tree, (lambda x: x) if syn == 'MATH' else rg.translit), syn, rnd, ws=0.1, parens=0.1)
            except Exception:
                continue
            texts.append(text.encode('utf-8'))
            for _ in range(2):
                texts.append(mutate_text(rnd, text))
        if desc['i'] == 5:
            depth = 200 if quick else 1500
            for op, cl in (('(', ')'), ('{', '}'), ('ℬ(', ')'), ('¬(', ')'), ('card(', ')'), ('(X1,', ')'), ('D{x∈', '|1=1}')):
                texts.append((op * depth + 'X1' + cl * depth).encode('utf-8'))
            texts.append(('∀x∈X1 ' * depth + '1=1').encode('utf-8'))
            texts.append(('X1∪' * depth + 'X1').encode('utf-8'))
            texts.append(('1=1&' * depth + '1=1').encode('utf-8'))
            texts.append(('¬' * depth + '1=1').encode('utf-8'))
            texts.append(('ℬ' * depth + '(X1)').encode('utf-8'))
        # half of the inputs go one by one through fresh analysers, the other half in groups of four through
        # long-lived Parser/Auditor/Interpreter objects (normal usage; positions must still lie inside each input)
        solo = texts[::2]
        grouped = texts[1::2]
        for b in solo:
            cases.append(core.case([ctxop] + expr_ops(b), kind='expr', text=enc(b)))
        for k in range(0, len(grouped), 4):
            ops = [ctxop]
            for b in grouped[k:k + 4]:
                ops += expr_ops(b, obj='h')
            cases.append(core.case(ops, kind='expr', text=[enc(b) for b in grouped[k:k + 4]]))
        if desc['i'] in (6, 7):
            # the systematic families once more, all of them through ONE long-lived auditor in two different orders: whatever an
            # analyser keeps between calls, "failed" must still coincide with "logged a critical error" on every single call
            fam = [op['text'].encode('utf-8') for op in fixed['ops'][1:]]
            for order in (fam, fam[::-1]):
                for k in range(0, len(order), 150):
                    ops = [ctxop]
                    for b in order[k:k + 150]:
                        t, syn = enc(b), 'MATH'
                        ops.append({'op': 'rs.check', 'ctx': 'c', 'text': t, 'syntax': syn, 'obj': 'h'})
                    cases.append(core.case(ops, kind='expr', text=[enc(b) for b in order[k:k + 150]]))
    elif kind == 'bytes':
        n = 150 if quick else 4000
        pool = [b'\xff', b'\xfe', b'\xc0\x80', b'\xc1\xbf', b'\xe0\x80\x80', b'\xf0\x80\x80\x80', b'\x80', b'\xbf', b'\xe2\x88', b'\xe2', b'\xf0\x9f\x98',
                b'\xed\xa0\x80', b'\xf4\x90\x80\x80', b'\xf8\x88\x80\x80\x80', b'\x00', b'\r', b'\t', b'\n', b' ', '∀'.encode(), 'ℬ'.encode(), b'X1', b'(', b')',
                b'=', '∈'.encode(), b'1', b'\\in', b'a', '×'.encode(), b'@{', b'|', b'}', b'nomn']
        for _ in range(n):
            b = b''.join(rnd.choice(pool) for _ in range(rnd.randint(1, 14)))
            if rnd.random() < 0.3:
                b = bytes(rnd.randrange(256) for _ in range(rnd.randint(1, 24)))
            ops = expr_ops(b, has_ctx=False)
            ops.append({'op': 'env.processor', 'mode': 'default'})
            ops.append({'op': 'ref.extract', 'text': enc(b)})
            ops.append({'op': 'ref.parse', 'text': enc(b)})
            cases.append(core.case(ops, kind='bytes', text=enc(b)))
    elif kind == 'refs':
        n = 150 if quick else 4000
        for _ in range(n):
            text = p17.gen_text(rnd, hostile=True)
            b = mutate_text(rnd, text) if rnd.random() < 0.6 else text.encode('utf-8')
            terms = p17.gen_context(rnd)
            ops = [{'op': 'env.processor', 'mode': rnd.choice(['default', 'tagging'])}, {'op': 'ctx.new', 'ctx': 'c', 'terms': terms},
                   {'op': 'ref.extract', 'text': enc(b)}, {'op': 'ref.parse', 'text': enc(b)},
                   {'op': 'refs.resolve', 'ctx': 'c', 'm': 'm', 'text': enc(b)},
                   {'op': 'refs.step', 'm': 'm', 'k': 'erase', 'range': [rnd.randint(0, 10), rnd.randint(10, 30)], 'expand': True},
                   {'op': 'refs.step', 'm': 'm', 'k': 'insert', 'ref': enc(mutate_text(rnd, p17.gen_ref(rnd))), 'at': rnd.randint(0, 20)},
                   {'op': 'mtext.step', 't': 't', 'k': 'init', 'raw': enc(b), 'ctx': 'c'},
                   {'op': 'mtext.step', 't': 't', 'k': 'translaterefs', 'map': {'X1': 'X2', 'D1': 'Zβ'}, 'ctx': 'c'},
                   {'op': 'ctx.term', 'ctx': 'c', 'name': 'X1', 'k': 'settext', 'raw': enc(b), 'forms': ['sing,nomn']}]
            cases.append(core.case(ops, kind='refs', text=enc(b)))
    elif kind == 'json':
        with zipfile.ZipFile('/repo/pyconcept/tests/data/Schema1.trs') as z:
            sample = json.loads(z.read('document.json'))
        n = 40 if quick else 800
        sg = rg.SynGen(rnd)
        for k in range(n):
            base = sample if rnd.random() < 0.4 else synth_doc(rnd)
            pristine = rnd.random() < 0.35
            doc = base if pristine else mutate_json(rnd, base)
            text = json.dumps(doc, ensure_ascii=False)
            b = text.encode('utf-8')
            if not pristine and rnd.random() < 0.15:
                b = mutate_text(rnd, text)[:200000]
            d = enc(b)
            tree = sg.expression(2)
            try:
                etext = rg.render(tree, 'MATH', rnd)[0]
            except Exception:
                etext = 'X1=X1'
            eb = mutate_text(rnd, etext) if rnd.random() < 0.5 else etext.encode('utf-8')
            ops = [{'op': 'api.call', 'fn': 'check_schema', 'doc': d},
                   {'op': 'api.call', 'fn': 'reset_aliases', 'doc': d},
                   {'op': 'api.call', 'fn': 'check_expression', 'doc': d, 'text': enc(eb)},
                   {'op': 'api.call', 'fn': 'check_constituenta', 'doc': d, 'alias': rnd.choice(['D7', 'X1', 'F5', 'bad', '']), 'text': enc(eb),
                    'cstType': rnd.choice(['term', 'basic', 'function', 'axiom', 'structure', 'predicate', 'theorem', 'constant'])},
                   {'op': 'api.call', 'fn': 'roundtrip', 'doc': d}]
            cases.append(core.case(ops, kind='json', pristine=pristine, text=d if len(b) < 3000 else '<doc>'))
    elif kind == 'json-model':
        from . import p10
        for k in range(30 if quick else 600):
            producer = (p10.rich_model_case if k % 2 else p10.model_case)(rnd, 777000 + k)
            cases.append(core.case(producer['ops'], kind='json-model', produce=True, mutations=rnd.randrange(1 << 30), n=4 if quick else 8))
    elif kind == 'json-oss':
        from . import p19
        for k in range(20 if quick else 400):
            producer = p19.history(rnd, 888000 + k, rnd.randint(10, 30))
            ops = producer['ops'][:-1] + [{'op': 'oss.dump'}, {'op': 'oss.drop'}]
            cases.append(core.case(ops, kind='json-oss', produce=True, mutations=rnd.randrange(1 << 30), n=4 if quick else 8))
    return cases


def second_stage(cs, cr, rnd):
    """documents produced by real code (first stage) are mutated and loaded back"""
    out = []
    kind = cs['meta']['kind']
    if not cr.events or cr.death is not None:
        return out
    last = cr.events[-1] if kind == 'json-model' else (cr.events[-2] if len(cr.events) >= 2 else {})
    doc = last.get('doc1') if kind == 'json-model' else (json.loads(last['doc']) if 'doc' in last else None)
    if not isinstance(doc, dict):
        return out
    for k in range(cs['meta']['n']):
        pristine = k == 0
        d = doc if pristine else mutate_json(rnd, doc)
        text = json.dumps(d, ensure_ascii=False)
        b = text.encode('utf-8')
        if not pristine and rnd.random() < 0.1:
            b = mutate_text(rnd, text)[:200000]
        if kind == 'json-model':
            ops = [{'op': 'env.processor', 'mode': 'default'}, {'op': 'model.op', 'm': 'x', 'k': 'fromjson', 'doc': b.decode('utf-8', 'replace')},
                   {'op': 'model.op', 'm': 'x', 'k': 'recalcall'}, {'op': 'model.snap', 'm': 'x', 'json': True},
                   {'op': 'model.op', 'm': 'x', 'k': 'addelem', 'uid': {'idx': 0}, 'name': 'new'}, {'op': 'model.op', 'm': 'x', 'k': 'erase', 'uid': {'idx': 1}}]
        else:
            ops = [{'op': 'oss.load', 'doc': enc(b), 'fresh': True}, {'op': 'oss.op', 'k': 'executeall'}, {'op': 'oss.op', 'k': 'open', 'p': 0},
                   {'op': 'oss.op', 'k': 'execute', 'p': 2, 'auto': True}, {'op': 'oss.op', 'k': 'operation', 'p1': 0, 'p2': 1}, {'op': 'oss.op', 'k': 'erase', 'p': 0},
                   {'op': 'oss.op', 'k': 'erase', 'p': 3}, {'op': 'oss.dump'}, {'op': 'oss.drop'}]
        out.append(core.case(ops, kind=kind, pristine=pristine, load=True, text=enc(b) if len(b) < 3000 else '<doc>'))
    return out


# ------------------------------------------------------------------ monitor

def text_bytes(op, key='text'):
    t = op.get(key)
    if isinstance(t, dict):
        return bytes.fromhex(t['hex'])
    return (t or '').encode('utf-8')


def check_faithful(bad, what, failed, errors, b, syntax):
    crit = [e for e in errors if e.get('crit', e.get('isCritical'))]
    if failed and not crit:
        bad.append((f'{what}:fails-without-critical-error', f'{what} reports failure but logged no critical error (errors: {errors})'))
    if not failed and crit:
        bad.append((f'{what}:succeeds-with-critical-error', f'{what} reports success but logged critical errors {crit}'))
    limit = ulen(b, syntax)
    for e in errors:
        pos = e.get('pos', e.get('position'))
        if pos is None or pos < 0 or pos > limit:
            bad.append((f'{what}:position-out-of-input', f'{what}: error {e} outside the input (length {limit}, syntax {syntax})'))
            break


def judge(res, cs, cr):
    kind = cs['meta']['kind']
    allow_json = kind == 'json' and not cs['meta'].get('pristine')
    # deaths / hangs first (partial events are still judged)
    if cr.death is not None:
        if cr.death['kind'] == 'harness':
            res.harness_error(cr.death['text'])
            return
        k = cr.death['op_index']
        res.count('deaths')
        res.violation(f"{PROP}/fault/{cr.death['key']}", f"op {json.dumps(cs['ops'][k], ensure_ascii=False)[:400]}\n" + cr.death['text'][-2500:],
                      {'ops': ([cs['ops'][0]] if k > 0 and cs['ops'][0]['op'] in ('rs.ctx', 'env.processor') else []) +
                              ([cs['ops'][1]] if k > 1 and cs['ops'][1]['op'] == 'ctx.new' else []) + [cs['ops'][k]], 'meta': cs['meta']})
    if cr.hang:
        hung = cs['ops'][len(cr.events)] if len(cr.events) < len(cs['ops']) else {'op': '?'}
        if hung['op'] == 'rs.eval':
            # evaluation is bounded by documented iteration limits, not by wall-clock: a slow evaluation is not a verdict
            res.count('inconclusive')
        else:
            res.count('hangs')
            res.violation(f"{PROP}/hang@{hung['op']}", f"{json.dumps(hung, ensure_ascii=False)[:300]} exceeded the watchdog twice", cs)
    bad = []
    for op, ev in zip(cs['ops'], cr.events):
        name = op['op']
        res.cover('entry:' + (name if name != 'api.call' else 'api.' + op['fn']))
        if 'harness_error' in ev:
            res.harness_error(ev['harness_error'])
            continue
        if 'opaque' in ev:
            res.count('opaque_results')      # returned normally, content not inspected
            res.count('judged')
            continue
        if 'exc' in ev:
            if ev['exc'].get('json') and allow_json and name == 'api.call':
                res.count('json_format_errors')
                res.count('judged')
                continue
            res.count('escaped_exceptions')
            bad.append((f"exception:{ev['exc']['type']}@{name if name != 'api.call' else 'api.' + op['fn']}",
                        f"{json.dumps(op, ensure_ascii=False)[:300]} -> escaped {ev['exc']}"))
            continue
        res.count('judged')
        if name == 'rs.parse':
            b = text_bytes(op)
            check_faithful(bad, 'Parser::Parse', not ev['ok'], ev['errors'], b, ev['syn'])
        elif name == 'rs.check':
            b = text_bytes(op)
            check_faithful(bad, 'Auditor::CheckType', not ev['ok'], ev['type_errors'], b, op['syntax'])
            if ev['ok']:
                value_errors = ev['errors'][ev['n_type_errors']:]
                check_faithful(bad, 'Auditor::CheckValue', not ev['vok'], value_errors, b, op['syntax'])
        elif name == 'rs.eval':
            b = text_bytes(op)
            syn = 'MATH' if any(x >= 0x80 or x in b'&+-<=>' for x in b) else 'ASCII'
            check_faithful(bad, 'Interpreter::Evaluate', not ev['has'], ev['errors'], b, syn)
        elif name == 'api.call' and op['fn'] in ('parse_expression', 'check_expression', 'check_constituenta'):
            r = ev['result']
            if 'unparsable' in r:
                bad.append(('api:result-not-json', f"{op['fn']} returned a non-JSON result"))
            else:
                b = text_bytes(op)
                syn = {'math': 'MATH', 'ascii': 'ASCII'}.get(r.get('syntax'), 'MATH')
                errors = r.get('errors', [])
                if op['fn'] == 'check_constituenta':
                    pref = r.get('prefixLen', 0)
                    errors = [dict(e, position=max(e['position'] - pref, 0) if e['position'] >= pref else e['position']) for e in errors]
                    # positions inside the generated prefix 'alias:==' are positions 0..prefixLen of the checked text
                    b2 = b
                    limit_extra = pref
                else:
                    b2 = b
                    limit_extra = 0
                crit = [e for e in errors if e['isCritical']]
                # the analysis reports failure through parseResult=false (parse / type check) or valueClass=invalid (value check)
                failed = (not r['parseResult']) or r.get('valueClass') == 'invalid'
                if failed and not crit:
                    bad.append((f"api.{op['fn']}:fails-without-critical-error", f"{op['fn']}({str(op.get('text'))[:200]}) parseResult={r['parseResult']} valueClass={r.get('valueClass')}, errors {errors}"))
                if not failed and crit:
                    bad.append((f"api.{op['fn']}:succeeds-with-critical-error", f"{op['fn']} parseResult=true valueClass={r.get('valueClass')} with {crit}"))
                limit = ulen(b2, syn) + limit_extra
                for e in errors:
                    if e['position'] < 0 or e['position'] > limit:
                        bad.append((f"api.{op['fn']}:position-out-of-input", f"{op['fn']}: error {e} outside the input (length {limit})"))
                        break
    seen = set()
    for what, msg in bad:
        if what in seen:
            continue
        seen.add(what)
        res.violation(f'{PROP}/report/{what}', f"input {str(cs['meta'].get('text'))[:300]!r}: {msg}", cs)
    res.judged(kind + ':' + json.dumps(cs['meta'].get('text'), ensure_ascii=False)[:2000] + str(len(cs['ops'])), nontrivial=True)
    res.counters['judged'] -= 1
    res.count('inputs')
    if kind == 'expr':
        res.sample({'kind': kind, 'input': cs['meta'].get('text') if isinstance(cs['meta'].get('text'), str) else cs['meta'].get('text'),
                    'entries': [o['op'] for o in cs['ops'][1:]]}, limit=1)


def judge_documents(res, cs, cr):
    """model / operation-schema documents: first stage = producing history (only faults are judged here), second stage = load of a
    (mutated) document followed by a few ordinary calls on the loaded object"""
    kind = cs['meta']['kind']
    if cr.death is not None:
        if cr.death['kind'] == 'harness':
            res.harness_error(cr.death['text'])
            return
        k = cr.death['op_index']
        res.count('deaths')
        stage = 'load' if cs['meta'].get('load') and k == (1 if kind == 'json-model' else 0) else ('post-load' if cs['meta'].get('load') else 'produce')
        if stage == 'post-load':
            # the property speaks about the load call; what later calls do with an accepted but absurd document (a grid row of
            # 2147483647, ...) is observed and counted, not judged
            res.count('post_load_faults')
            return
        res.violation(f"{PROP}/fault/{kind}:{stage}:{cr.death['key']}", f"op {json.dumps(cs['ops'][k], ensure_ascii=False)[:300]}\n" + cr.death['text'][-2500:], cs)
        return
    if cr.hang:
        k = len(cr.events)
        load_at = (1 if kind == 'json-model' else 0)
        if cs['meta'].get('load') and k > load_at:
            # the load call itself returned; a LATER call (recalculation, serialisation of what was calculated) on an accepted
            # document is bounded by documented resource limits, not by wall-clock: observed and counted, like post-load faults
            res.count('post_load_slow')
            res.count('inconclusive')
            return
        res.count('hangs')
        res.violation(f'{PROP}/hang@{kind}', 'the load of a document (or a call of the producing history) exceeded the watchdog twice', cs)
        return
    if not cs['meta'].get('load'):
        res.count('documents_produced')
        return
    load_at = 1 if kind == 'json-model' else 0
    ev = cr.events[load_at]
    res.cover('entry:' + cs['ops'][load_at]['op'] + (':fromjson' if kind == 'json-model' else ''))
    res.count('judged')
    if 'exc' in ev:
        if ev['exc'].get('json') and not cs['meta'].get('pristine'):
            res.count('json_format_errors')
        else:
            res.count('escaped_exceptions')
            res.violation(f"{PROP}/report/exception:{ev['exc']['type']}@{kind}:load", f"loading {'the pristine' if cs['meta'].get('pristine') else 'a mutated'} document -> escaped {ev['exc']}; "
                          f"document {str(cs['meta'].get('text'))[:600]}", cs)
    else:
        res.count('documents_loaded')
        for op, e2 in zip(cs['ops'][load_at + 1:], cr.events[load_at + 1:]):
            if 'exc' in e2:
                res.count('post_load_exceptions')      # observed, not judged: outside the load call the property speaks about
    res.judged(kind + ':' + json.dumps(cs['meta'].get('text'), ensure_ascii=False)[:2000], nontrivial=not cs['meta'].get('pristine'))
    res.counters['judged'] -= 1
    res.count('inputs')


def run_shard(desc, env):
    res = core.ShardResult()
    if desc['kind'] in ('json-model', 'json-oss'):
        rnd = env.rng('c04-second', desc['kind'], desc['i'])
        second = []
        for cs, cr in env.execute(gen_cases(desc, env), chunk=10):
            judge_documents(res, cs, cr)
            second += second_stage(cs, cr, random.Random(cs['meta']['mutations']))
        for cs, cr in env.execute(second, chunk=20):
            judge_documents(res, cs, cr)
        return res
    for cs, cr in env.execute(gen_cases(desc, env), chunk=40):
        judge(res, cs, cr)
    return res


def replay(cs, env):
    res = core.ShardResult()
    for c, cr in env.execute([cs]):
        (judge_documents if c['meta']['kind'] in ('json-model', 'json-oss') else judge)(res, c, cr)
    return res


RULE = RULE + ' The systematic C03 families additionally run through ONE long-lived auditor in two orders (failure iff critical error on every call).'
