"""Reference typing rules for RSLang abstract trees (DESIGN.md appendix A) - the C03 oracle.

Types: ('e', name) basic (incl. 'Z', 'R0' = any, radicals 'R1'..), ('t', (T1..Tn)), ('s', T); LOGIC = 'LOGIC'.
A context is a dict: types {name: type|'LOGIC'}, funcs {name: [(arg, type)..]}, traits {base: nominal|ordered|
integral}, vclass {name: value|props}, bodies {func: abstract definition tree}.
"""

LOGIC = 'LOGIC'
Z = ('e', 'Z')
ANY = ('e', 'R0')
EMPTY = ('s', ANY)


class TypeErr(Exception):
    def __init__(self, what, node=None):
        super().__init__(what)
        self.what = what
        self.node = node


class Unspec(Exception):
    pass


def tstr(t):
    if t == LOGIC:
        return 'LOGIC'
    if t[0] == 'e':
        return t[1]
    if t[0] == 's':
        inner = tstr(t[1])
        return 'ℬ' + inner if t[1][0] == 's' else 'ℬ(' + inner + ')'
    parts = []
    for c in t[1]:
        s = tstr(c)
        parts.append('(' + s + ')' if c[0] == 't' else s)
    return '×'.join(parts)


def tspec(t):
    if t == LOGIC:
        return 'LOGIC'
    if t[0] == 'e':
        return {'b': t[1]}
    if t[0] == 's':
        return {'B': tspec(t[1])}
    return {'t': [tspec(c) for c in t[1]]}


def mk_tuple(parts):
    parts = tuple(parts)
    return parts[0] if len(parts) == 1 else ('t', parts)


def is_any(t):
    return t == ANY


def is_radical_name(name):
    return len(name) >= 2 and name[0] == 'R' and name[1] != '0'


def traits(ctx, t):
    if t == LOGIC or t[0] != 'e':
        return None
    if t == Z:
        return 'integral'
    return ctx.get('traits', {}).get(t[1])


def converts_from_int(ctx, t):
    return traits(ctx, t) == 'integral'


def is_ordered(ctx, t):
    return traits(ctx, t) in ('integral', 'ordered')


def is_operable(ctx, t):
    return traits(ctx, t) == 'integral'


def common(ctx, a, b):
    if a == Z:
        return b if converts_from_int(ctx, b) else None
    if b == Z:
        return a if converts_from_int(ctx, a) else None
    return None


def merge(ctx, a, b):
    if a == b:
        return a
    if is_any(a):
        return b
    if is_any(b):
        return a
    if a[0] != b[0]:
        return None
    if a[0] == 'e':
        return common(ctx, a, b)
    if a[0] == 's':
        m = merge(ctx, a[1], b[1])
        return None if m is None else ('s', m)
    if len(a[1]) != len(b[1]):
        return None
    parts = []
    for x, y in zip(a[1], b[1]):
        m = merge(ctx, x, y)
        if m is None:
            return None
        parts.append(m)
    return ('t', tuple(parts))


def compatible(ctx, a, b):
    if a == LOGIC or b == LOGIC:
        return a == b
    return merge(ctx, a, b) is not None


def substitute(t, subst):
    if t[0] == 'e':
        return subst.get(t[1], t)
    if t[0] == 's':
        return ('s', substitute(t[1], subst))
    return ('t', tuple(substitute(c, subst) for c in t[1]))


def radicals_in(t, acc=None):
    acc = acc if acc is not None else set()
    if t == LOGIC:
        return acc
    if t[0] == 'e':
        if is_radical_name(t[1]):
            acc.add(t[1])
    elif t[0] == 's':
        radicals_in(t[1], acc)
    else:
        for c in t[1]:
            radicals_in(c, acc)
    return acc


def match_template(ctx, subst, arg, value):
    """declared argument type (radicals = template parameters) against an actual type"""
    if arg == value:
        return True
    if arg[0] == 'e' and is_radical_name(arg[1]):
        if arg[1] not in subst:
            subst[arg[1]] = value
            return True
        m = merge(ctx, subst[arg[1]], value)
        if m is None:
            return False
        subst[arg[1]] = m
        return True
    if is_any(value):
        return True
    if arg[0] != value[0]:
        return False
    if arg[0] == 'e':
        return common(ctx, arg, value) is not None
    if arg[0] == 's':
        return match_template(ctx, subst, arg[1], value[1])
    if len(arg[1]) != len(value[1]):
        return False
    return all(match_template(ctx, subst, x, y) for x, y in zip(arg[1], value[1]))


EMPTY_FORBIDDEN_PARENTS = {'CARD', 'DEBOOL', 'UNION', 'INTERSECTION', 'SET_MINUS', 'SYMMINUS', 'REDUCE', 'BIGPR', 'SMALLPR'}
STRUCT_DOMAIN = {'LIT_INTSET', 'ID_GLOBAL', 'BOOLEAN', 'DECART', 'NT_ENUMERATION'}


class Checker:
    def __init__(self, ctx):
        self.ctx = ctx
        self.vars = []          # dicts: name, type, level, enabled
        self.in_func_decl = False
        self.func_args = []

    # ---- scopes
    def start_scope(self):
        for v in self.vars:
            v['level'] += 1

    def end_scope(self):
        for v in self.vars:
            v['level'] -= 1
            if v['level'] < 0 and v['enabled']:
                v['enabled'] = False

    def declare(self, name, t, node):
        for v in self.vars:
            if v['name'] == name:
                if v['enabled']:
                    raise TypeErr('localShadowing', node)
                v['type'] = t
                v['enabled'] = True
                v['level'] = 0
                return
        self.vars.append({'name': name, 'type': t, 'level': 0, 'enabled': True})

    def lookup(self, name, node):
        for v in self.vars:
            if v['name'] == name:
                if not v['enabled']:
                    raise TypeErr('localOutOfScope', node)
                return v['type']
        raise TypeErr('localUndeclared', node)

    def bind(self, decl, t):
        """declaration position: local, tuple pattern or enumerated declaration against the domain element type t"""
        i = decl[0]
        if i == 'ID_LOCAL':
            self.declare(decl[1], t, decl)
        elif i == 'NT_TUPLE_DECL':
            if is_any(t):
                raise Unspec('tuple pattern against the any-type')
            if t == LOGIC or t[0] != 't' or len(t[1]) != len(decl[2]):
                raise TypeErr('invalidBinding', decl)
            for c, ct in zip(decl[2], t[1]):
                self.bind(c, ct)
        elif i == 'NT_ENUM_DECL':
            for c in decl[2]:
                self.bind(c, t)
        else:
            raise TypeErr('expectedLocal', decl)

    # ---- helpers
    def typification(self, node, parent=None):
        t = self.check(node, parent)
        if t == LOGIC:
            raise TypeErr('logic-in-set-position', node)
        return t

    def elem(self, node, parent=None):
        """'debool of the type': the expression must be a set (or any-typed); returns the element type"""
        t = self.typification(node, parent)
        if is_any(t):
            return ANY
        if t[0] != 's':
            raise TypeErr('not-a-set', node)
        return t[1]

    # ---- main
    def check(self, node, parent=None):
        i, d, kids = node
        ctx = self.ctx
        if i == 'LIT_INTEGER':
            return Z
        if i == 'LIT_INTSET':
            return ('s', Z)
        if i == 'LIT_EMPTYSET':
            if parent in EMPTY_FORBIDDEN_PARENTS:
                raise TypeErr('invalidEmptySetUsage', node)
            return EMPTY
        if i in ('ID_GLOBAL', 'ID_FUNCTION', 'ID_PREDICATE'):
            if d in ctx.get('funcs', {}):
                raise TypeErr('globalFuncWithoutArgs', node)
            if d not in ctx.get('types', {}):
                raise TypeErr('globalNotTyped', node)
            return ctx['types'][d]
        if i == 'ID_RADICAL':
            if not self.in_func_decl:
                raise TypeErr('radicalUsage', node)
            return ('s', ('e', d))
        if i == 'ID_LOCAL':
            return self.lookup(d, node)
        if i in ('PLUS', 'MINUS', 'MULTIPLY'):
            a = self.typification(kids[0], i)
            if not is_operable(ctx, a):
                raise TypeErr('arithmeticNotSupported', kids[0])
            b = self.typification(kids[1], i)
            if not is_operable(ctx, b):
                raise TypeErr('arithmeticNotSupported', kids[1])
            m = merge(ctx, a, b)
            if m is None:
                raise TypeErr('typesNotCompatible', kids[1])
            return m
        if i == 'CARD':
            self.elem(kids[0], i)
            return Z
        if i in ('GREATER', 'LESSER', 'GREATER_OR_EQ', 'LESSER_OR_EQ'):
            a = self.typification(kids[0], i)
            if not is_ordered(ctx, a):
                raise TypeErr('orderingNotSupported', kids[0])
            b = self.typification(kids[1], i)
            if not is_ordered(ctx, b):
                raise TypeErr('orderingNotSupported', kids[1])
            if not compatible(ctx, a, b):
                raise TypeErr('typesNotCompatible', kids[1])
            return LOGIC
        if i in ('EQUAL', 'NOTEQUAL'):
            a = self.typification(kids[0], i)
            b = self.typification(kids[1], i)
            if not compatible(ctx, a, b):
                raise TypeErr('typesNotCompatible', kids[1])
            return LOGIC
        if i in ('IN', 'NOTIN', 'SUBSET', 'SUBSET_OR_EQ', 'NOTSUBSET'):
            e2 = self.elem(kids[1], i)
            t2 = e2 if i in ('IN', 'NOTIN') else ('s', e2)
            t1 = self.check(kids[0], i)
            if not compatible(ctx, t1, t2):
                raise TypeErr('typesNotEqual' if i not in ('IN', 'NOTIN') else 'invalidElementPredicate', kids[1])
            return LOGIC
        if i == 'NOT':
            self.expect_logic(kids[0], i)
            return LOGIC
        if i in ('AND', 'OR', 'IMPLICATION', 'EQUIVALENT'):
            self.expect_logic(kids[0], i)
            self.expect_logic(kids[1], i)
            return LOGIC
        if i in ('FORALL', 'EXISTS'):
            self.start_scope()
            dom = self.elem(kids[1], i)
            self.bind(kids[0], dom)
            self.expect_logic(kids[2], i)
            self.end_scope()
            return LOGIC
        if i == 'NT_DECLARATIVE_EXPR':
            self.start_scope()
            dom = self.elem(kids[1], i)
            self.bind(kids[0], dom)
            self.expect_logic(kids[2], i)
            self.end_scope()
            return ('s', dom)
        if i == 'NT_IMPERATIVE_EXPR':
            self.start_scope()
            for b in kids[1:]:
                if b[0] == 'ITERATE':
                    dom = self.elem(b[2][1], 'ITERATE')
                    self.bind(b[2][0], dom)
                elif b[0] == 'ASSIGN':
                    t = self.typification(b[2][1], 'ASSIGN')
                    self.bind(b[2][0], t)
                else:
                    self.expect_logic(b, i)
            t = self.typification(kids[0], i)
            self.end_scope()
            return ('s', t)
        if i in ('NT_RECURSIVE_FULL', 'NT_RECURSIVE_SHORT'):
            return self.recursion(node)
        if i == 'DECART':
            return ('s', mk_tuple(self.elem(c, i) for c in kids))
        if i == 'BOOLEAN':
            return ('s', ('s', self.elem(kids[0], i)))
        if i == 'NT_TUPLE':
            return mk_tuple(self.typification(c, i) for c in kids)
        if i in ('NT_ENUMERATION', 'BOOL'):
            t = self.typification(kids[0], i)
            for c in kids[1:]:
                ct = self.typification(c, i)
                m = merge(ctx, t, ct)
                if m is None:
                    raise TypeErr('invalidEnumeration', c)
                t = m
            return ('s', t)
        if i == 'DEBOOL':
            return self.elem(kids[0], i)
        if i in ('UNION', 'INTERSECTION', 'SET_MINUS', 'SYMMINUS'):
            a = self.elem(kids[0], i)
            b = self.elem(kids[1], i)
            m = merge(ctx, a, b)
            if m is None:
                raise TypeErr('typesNotEqual', kids[1])
            return ('s', m)
        if i == 'BIGPR':
            arg = self.elem(kids[0], i)
            if is_any(arg):
                return EMPTY
            if arg[0] != 't':
                raise TypeErr('invalidProjectionSet', kids[0])
            return ('s', self.project(arg, d, node, 'invalidProjectionSet'))
        if i == 'SMALLPR':
            arg = self.typification(kids[0], i)
            if is_any(arg):
                return ANY
            if arg[0] != 't':
                raise TypeErr('invalidProjectionTuple', kids[0])
            return self.project(arg, d, node, 'invalidProjectionTuple')
        if i == 'FILTER':
            return self.filter(node)
        if i == 'REDUCE':
            arg = self.typification(kids[0], i)
            if is_any(arg) or arg == EMPTY:
                return EMPTY
            if arg[0] != 's' or arg[1][0] != 's':
                raise TypeErr('invalidReduce', kids[0])
            return arg[1]
        if i == 'NT_FUNC_CALL':
            return self.call(node)
        if i == 'NT_FUNC_DEFINITION':
            self.start_scope()
            self.in_func_decl = True
            for a in kids[0][2]:
                dom = self.elem(a[2][1], 'NT_ARG_DECL')
                self.declare(a[2][0][1], dom, a[2][0])
                self.func_args.append((a[2][0][1], dom))
            self.in_func_decl = False
            t = self.check(kids[1], i)
            self.end_scope()
            return t
        if i == 'PUNC_DEFINE':
            if len(kids) == 1:
                return ('s', ('e', kids[0][1]))
            return self.check(kids[1], i)
        if i == 'PUNC_STRUCT':
            if len(kids) != 2 or not self.struct_domain(kids[1]):
                raise TypeErr('globalStructure', node)
            t = self.typification(kids[1], i)
            if t[0] != 's':
                raise TypeErr('globalStructure', node)
            return t[1]
        if i in ('ITERATE', 'ASSIGN'):
            raise TypeErr('invalidImperative', node)
        raise TypeErr('unknown-node:' + i, node)

    def expect_logic(self, node, parent):
        t = self.check(node, parent)
        if t != LOGIC:
            # the grammar never puts a set expression where a formula is required, except bare identifiers
            raise Unspec('set expression in logic position')
        return t

    def struct_domain(self, node):
        if node[0] not in STRUCT_DOMAIN:
            return False
        return all(self.struct_domain(c) for c in node[2])

    def project(self, tup, indices, node, what):
        parts = []
        for ix in indices:
            if ix < 1 or ix > len(tup[1]):
                raise TypeErr(what, node)
            parts.append(tup[1][ix - 1])
        return mk_tuple(parts)

    def filter(self, node):
        i, idx, kids = node
        nparams = len(kids) - 1
        tuple_param = len(idx) == nparams
        if not tuple_param and nparams > 1:
            raise TypeErr('invalidFilterArity', node)
        arg = self.typification(kids[-1], i)
        if is_any(arg) or arg == EMPTY:
            # the parameters are not constrained by an untyped argument; they still have to be well-typed themselves
            for p in kids[:-1]:
                self.typification(p, i)
            return EMPTY
        if arg[0] != 's' or arg[1][0] != 't':
            raise TypeErr('invalidFilterArgumentType', kids[-1])
        bases = []
        for ix in idx:
            if ix < 1 or ix > len(arg[1][1]):
                raise TypeErr('invalidFilterArgumentType', kids[-1])
            bases.append(arg[1][1][ix - 1])
        if tuple_param:
            for p, b in zip(kids[:-1], bases):
                pt = self.typification(p, i)
                if is_any(pt):
                    raise Unspec('any-typed filter parameter')
                if pt[0] != 's' or not compatible(self.ctx, b, pt[1]):
                    raise TypeErr('typesNotEqual', p)
        else:
            pt = self.typification(kids[0], i)
            if is_any(pt):
                raise Unspec('any-typed filter parameter')
            expected = ('s', mk_tuple(bases))
            if pt[0] != 's' or not compatible(self.ctx, expected, pt):
                raise TypeErr('typesNotEqual', kids[0])
        return arg

    def call(self, node):
        kids = node[2]
        name = kids[0][1]
        ctx = self.ctx
        if name not in ctx.get('types', {}):
            raise TypeErr('globalNotTyped', node)
        if name not in ctx.get('funcs', {}):
            raise TypeErr('globalFuncMissing', kids[0])
        declared = ctx['funcs'][name]
        if len(declared) != len(kids) - 1:
            raise TypeErr('invalidArgsArity', kids[1])
        subst = {}
        for (aname, atype), actual in zip(declared, kids[1:]):
            t = self.typification(actual, 'NT_FUNC_CALL')
            mangled = substitute(atype, {r: ('e', r + name) for r in radicals_in(atype)})
            if not match_template(ctx, {k: v for k, v in subst.items()}, mangled, t):
                raise TypeErr('invalidArgumentType', actual)
            match_template(ctx, subst, mangled, t)
        result = ctx['types'][name]
        if result == LOGIC:
            return LOGIC
        mangled_result = substitute(result, {r: ('e', r + name) for r in radicals_in(result)})
        final = substitute(mangled_result, subst)
        if any(r.endswith(name) and r not in subst for r in radicals_in(mangled_result)):
            raise Unspec('result type mentions a template parameter that no argument binds')
        return final

    def recursion(self, node):
        i, _d, kids = node
        full = i == 'NT_RECURSIVE_FULL'
        step_idx = 3 if full else 2
        self.start_scope()
        init = self.typification(kids[1], i)
        self.bind(kids[0], init)
        step = self.typification(kids[step_idx], i)
        if not compatible(self.ctx, step, init):
            raise TypeErr('typesNotEqual', kids[step_idx])
        stable = False
        for _ in range(5):
            self.vars = [v for v in self.vars if v['level'] > 0]
            self.bind(kids[0], step)
            new = self.typification(kids[step_idx], i)
            if new == step:
                stable = True
                break
            step = new
        if not stable:
            # the 5th refinement may have reached the fixed point without it being re-confirmed: one verification
            # round decides whether the result is the principal type or an unfinished deduction (rejected)
            self.vars = [v for v in self.vars if v['level'] > 0]
            self.bind(kids[0], step)
            if self.typification(kids[step_idx], i) != step:
                raise TypeErr('typesNotEqual', kids[step_idx])      # the deduction did not reach a fixed point: no principal type
        if full:
            self.expect_logic(kids[2], i)
        self.end_scope()
        return step


def check_expression(tree, ctx):
    """returns dict(status ok|err|unspec, type, args, why)"""
    ck = Checker(ctx)
    try:
        t = ck.check(tree, None)
    except TypeErr as e:
        return {'status': 'err', 'why': e.what}
    except Unspec as e:
        return {'status': 'unspec', 'why': str(e)}
    except RecursionError:
        return {'status': 'unspec', 'why': 'too deep'}
    return {'status': 'ok', 'type': t, 'args': ck.func_args}


# ---------------------------------------------------------------------------------------------------
# value class audit
# ---------------------------------------------------------------------------------------------------

class ClassErr(Exception):
    pass


def value_class(tree, ctx, local_props=()):
    """returns 'value' | 'props'; raises ClassErr when the audit rejects the expression"""
    props = set(local_props)

    def must_value(n):
        if vc(n) != 'value':
            raise ClassErr('invalidPropertyUsage')
        return 'value'

    def vc(n):
        i, d, kids = n
        if i in ('LIT_INTEGER', 'LIT_EMPTYSET', 'ID_RADICAL'):
            return 'value'
        if i == 'LIT_INTSET':
            return 'props'
        if i == 'ID_LOCAL':
            return 'props' if d in props else 'value'
        if i in ('ID_GLOBAL', 'ID_FUNCTION', 'ID_PREDICATE'):
            c = ctx.get('vclass', {}).get(d)
            if c is None:
                raise ClassErr('globalNoValue')
            return c
        if i in ('PLUS', 'MINUS', 'MULTIPLY', 'NOT', 'AND', 'OR', 'IMPLICATION', 'EQUIVALENT', 'GREATER', 'LESSER',
                 'GREATER_OR_EQ', 'LESSER_OR_EQ', 'NT_TUPLE_DECL', 'NT_ENUM_DECL'):
            for c in kids:
                vc(c)
            return 'value'
        if i in ('CARD', 'BOOL', 'DEBOOL', 'BIGPR', 'SMALLPR', 'REDUCE'):
            return must_value(kids[0])
        if i in ('EQUAL', 'NOTEQUAL', 'NT_TUPLE', 'NT_ENUMERATION', 'NT_RECURSIVE_FULL', 'NT_RECURSIVE_SHORT'):
            for c in kids:
                must_value(c)
            return 'value'
        if i in ('ITERATE', 'ASSIGN'):
            return must_value(kids[1])
        if i in ('FORALL', 'EXISTS'):
            must_value(kids[1])
            return vc(kids[2])
        if i in ('IN', 'NOTIN', 'SUBSET_OR_EQ'):
            vc(kids[1])
            return must_value(kids[0])
        if i in ('SUBSET', 'NOTSUBSET'):
            must_value(kids[0])
            return must_value(kids[1])
        if i == 'NT_DECLARATIVE_EXPR':
            vc(kids[2])
            return vc(kids[1])
        if i == 'NT_IMPERATIVE_EXPR':
            for b in kids[1:]:
                vc(b)
            return must_value(kids[0])
        if i == 'DECART':
            out = 'value'
            for c in kids:
                if vc(c) == 'props':
                    out = 'props'
            return out
        if i == 'BOOLEAN':
            vc(kids[0])
            return 'props'
        if i in ('UNION', 'SYMMINUS', 'INTERSECTION', 'SET_MINUS'):
            a = vc(kids[0]) == 'value'
            b = vc(kids[1]) == 'value'
            ok = (a and b) if i in ('UNION', 'SYMMINUS') else ((a or b) if i == 'INTERSECTION' else a)
            return 'value' if ok else 'props'
        if i == 'FILTER':
            out = None
            for c in kids:
                out = vc(c)
            return out
        if i == 'NT_FUNC_CALL':
            name = kids[0][1]
            fclass = ctx.get('vclass', {}).get(name)
            if fclass is None:
                raise ClassErr('globalNoValue')
            classes = [vc(c) for c in kids[1:]]
            if all(c == 'value' for c in classes):
                return fclass
            body = ctx.get('bodies', {}).get(name)
            if body is None:
                raise ClassErr('globalMissingAST')
            fdef = body[2][1]
            argnames = [a[2][0][1] for a in fdef[2][0][2]]
            inner_props = [an for an, c in zip(argnames, classes) if c == 'props']
            try:
                return value_class(fdef[2][1], ctx, inner_props)
            except ClassErr:
                raise ClassErr('globalFuncNoInterpretation')
        if i == 'NT_FUNC_DEFINITION':
            for a in kids[0][2]:
                vc(a[2][0])
                vc(a[2][1])
            return vc(kids[1])
        if i == 'PUNC_DEFINE':
            return 'value' if len(kids) == 1 else vc(kids[1])
        if i == 'PUNC_STRUCT':
            vc(kids[1])
            return 'value'
        raise ClassErr('unknown:' + i)

    return vc(tree)
