#!/bin/bash
# usage: tools/confirm_seed.sh <dir with patch.diff demo.cpp run.sh>
# Confirms in scratch worktrees (removed afterwards): (1) patch applies on /repo HEAD, (2) baseline suite still passes,
# (3) demo fails with the patch, (4) demo passes without it.  Prints a one-line summary, writes <dir>/confirm.log
D=$(readlink -f "$1"); LOG=$D/confirm.log; : > $LOG
WT=/tmp/cs_$$; PR=/tmp/cs_pristine
buildlib() { # $1 = worktree
  local W=$1
  local INCS="-I$W/ccl/cclCommons/include -I$W/ccl/cclGraph/include -I$W/ccl/cclLang/include -I$W/ccl/rslang/include -I$W/ccl/core/include -I$W/ccl/core/header -I$W/ccl/rslang/header -I$W/ccl/rslang/import/reflex/include -I$W/ccl/cclLang/header"
  mkdir -p $W/_lib && cd $W/_lib && rm -f *.o libccl.a
  ( find $W/ccl/core/src $W/ccl/rslang/src $W/ccl/cclLang/src $W/ccl/cclGraph/src -name '*.cpp'; echo $W/ccl/rslang/unity/reflex_unity1.cpp; echo $W/ccl/rslang/unity/reflex_unity2.cpp ) | \
    CCACHE_DIR=/verif/.cache/ccache xargs -P 16 -I{} sh -c 'ccache g++ -std=c++20 -O1 -g1 -w -DNDEBUG '"$INCS"' -c {} -o $(echo {} | md5sum | cut -c1-8)_$(basename {} .cpp).o' >> $LOG 2>&1
  ar rcs libccl.a *.o
}
HEAD=$(git -C /repo rev-parse HEAD)
if [ ! -f $PR/_lib/libccl.a ] || [ "$(cat $PR/.head 2>/dev/null)" != "$HEAD" ]; then
  git -C /repo worktree remove --force $PR 2>/dev/null; rm -rf $PR
  git -C /repo worktree add -f --detach $PR HEAD -q && buildlib $PR && echo $HEAD > $PR/.head
fi
git -C /repo worktree add -f --detach $WT HEAD -q || { echo "worktree failed"; exit 2; }
cd $WT
if ! git apply --3way $D/patch.diff >> $LOG 2>&1 && ! git apply $D/patch.diff >> $LOG 2>&1; then echo "SEED $D: patch does not apply"; git -C /repo worktree remove --force $WT; exit 1; fi
git -C $WT diff HEAD > $D/patch.rebased.diff
( cmake -G Ninja -B $WT/_build -S $WT/ccl -DCMAKE_BUILD_TYPE=RelWithDebInfo > /dev/null && cmake --build $WT/_build --target cclCommons_Tests cclGraph_Tests cclLang_Tests ) >> $LOG 2>&1
TESTS=$(ctest --test-dir $WT/_build -j8 --timeout 900 2>&1 | grep -E "tests passed|tests failed")
echo "ctest: $TESTS" >> $LOG
buildlib $WT
cd $D
bash $D/run.sh $WT >> $LOG 2>&1; RC_WITH=$?
bash $D/run.sh $PR >> $LOG 2>&1; RC_WITHOUT=$?
git -C /repo worktree remove --force $WT
echo "SEED $(basename $(dirname $D))/$(basename $D): tests=[$TESTS] demo_with_patch_rc=$RC_WITH demo_without_rc=$RC_WITHOUT" | tee -a $LOG
