// api.* : pyconcept entry points (real pyconcept.cpp compiled against a stub pybind11) and RSFormJA (C04, C10, C03)
#include "drv.h"

#include "ccl/api/RSFormJA.h"
#include "ccl/lang/TextEnvironment.h"

// plain C++ functions defined in /repo/pyconcept/src/pyconcept.cpp
std::string CheckSchema(const std::string& jSchema);
std::string ResetAliases(const std::string& jSchema);
std::string ConvertToASCII(const std::string& expression);
std::string ConvertToMath(const std::string& expression);
std::string ParseExpression(const std::string& expression);
std::string CheckExpression(const std::string& jSchema, const std::string& expression);
std::string CheckConstituenta(const std::string& jSchema, const std::string& alias, const std::string& expression, const std::string& cstType);

using drv::json;

namespace {
json ParseBack(const std::string& text) {
  // results are JSON documents produced by the library: parse them for the monitor (keep raw when not parsable)
  try {
    return json::parse(text);
  } catch (const json::exception&) {
    return json{ {"unparsable", drv::PutBytes(text.substr(0, 400))} };
  }
}
}  // namespace

DRV_OP(OpApiCall, "api.call") {
  const auto fn = a.at("fn").get<std::string>();
  const auto before = ccl::lang::TextEnvironment::Instance().skipResolving;
  json out = json::object();
  struct Restore {
    bool value;
    ~Restore() { ccl::lang::TextEnvironment::Instance().skipResolving = value; }
  } restore{ before };
  if (fn == "parse_expression") {
    out["result"] = ParseBack(ParseExpression(drv::GetBytes(a, "text")));
  } else if (fn == "parse_expression_hint") {
    out["result"] = ParseBack(ccl::api::ParseExpression(drv::GetBytes(a, "text"),
      a.value("syntax", std::string{}) == "MATH" ? ccl::rslang::Syntax::MATH :
      (a.value("syntax", std::string{}) == "ASCII" ? ccl::rslang::Syntax::ASCII : ccl::rslang::Syntax::UNDEF)));
  } else if (fn == "convert_to_ascii") {
    out["result"] = drv::PutBytes(ConvertToASCII(drv::GetBytes(a, "text")));
  } else if (fn == "convert_to_math") {
    out["result"] = drv::PutBytes(ConvertToMath(drv::GetBytes(a, "text")));
  } else if (fn == "check_schema") {
    out["result"] = ParseBack(CheckSchema(drv::GetBytes(a, "doc")));
  } else if (fn == "reset_aliases") {
    out["result"] = ParseBack(ResetAliases(drv::GetBytes(a, "doc")));
  } else if (fn == "check_expression") {
    out["result"] = ParseBack(CheckExpression(drv::GetBytes(a, "doc"), drv::GetBytes(a, "text")));
  } else if (fn == "check_constituenta") {
    out["result"] = ParseBack(CheckConstituenta(drv::GetBytes(a, "doc"), drv::GetBytes(a, "alias"), drv::GetBytes(a, "text"), a.at("cstType").get<std::string>()));
  } else if (fn == "roundtrip") {
    // FromJSON -> ToJSON -> FromJSON -> ToJSON (+ minimal)
    auto first = ccl::api::RSFormJA::FromJSON(drv::GetBytes(a, "doc"));
    const auto doc1 = first.ToJSON();
    auto second = ccl::api::RSFormJA::FromJSON(doc1);
    const auto doc2 = second.ToJSON();
    out["doc1"] = ParseBack(doc1);
    out["doc2"] = ParseBack(doc2);
    out["minimal"] = ParseBack(first.ToMinimalJSON());
  } else {
    return json{ {"harness_error", "unknown api fn " + fn} };
  }
  return out;
}
