"""Shared workload for C01 (evaluation = set-theoretic value) and C02 (type soundness)."""
from . import core
from . import rsgen as rg
from . import rstypes as rt
from . import rstyped as ty
from . import sdmodel as sm

N = rg.N
DOCUMENTED = {0x8A01: 'typedOverflow', 0x8A02: 'booleanLimit', 0x8A03: 'globalMissingValue', 0x8A04: 'iterationsLimit',
              0x8A05: 'invalidDebool', 0x8A06: 'iterateInfinity'}
UNKNOWN_ERROR = 0x8A00

STYLES = [dict(ws=0.0, parens=0.0, short_decl=0.0), dict(ws=0.2, nl=0.1, parens=0.3, short_decl=0.4)]


def parse_type(s):
    """Typification::ToString -> rstypes type"""
    if s == 'LOGIC':
        return rt.LOGIC
    pos = [0]

    def peek():
        return s[pos[0]] if pos[0] < len(s) else ''

    def atom():
        ch = peek()
        if ch == 'ℬ':
            pos[0] += 1
            if peek() == '(':
                pos[0] += 1
                inner = product()
                assert peek() == ')'
                pos[0] += 1
                return ('s', inner)
            return ('s', atom())
        if ch == '(':
            pos[0] += 1
            inner = product()
            assert peek() == ')'
            pos[0] += 1
            return inner
        start = pos[0]
        while pos[0] < len(s) and s[pos[0]] not in '×()':
            pos[0] += 1
        return ('e', s[start:pos[0]])

    def product():
        parts = [atom()]
        while peek() == '×':
            pos[0] += 1
            parts.append(atom())
        return parts[0] if len(parts) == 1 else ('t', tuple(parts))

    t = product()
    assert pos[0] == len(s), s
    return t


def conforms(v, t):
    if t == rt.LOGIC:
        return isinstance(v, bool)
    if isinstance(v, bool):
        return False
    if rt.is_any(t):
        return True
    if t[0] == 'e':
        return isinstance(v, int)
    if t[0] == 't':
        return isinstance(v, tuple) and len(v) == len(t[1]) and all(conforms(c, ct) for c, ct in zip(v, t[1]))
    return isinstance(v, frozenset) and all(conforms(c, t[1]) for c in v)


def variants(tree, ref_type, rnd):
    """metamorphic variants that must have the same value: (label, tree, syntax, style)"""
    out = [('math', tree, 'MATH', STYLES[0])]
    if not rg.has_greek(tree):
        out.append(('ascii', tree, 'ASCII', STYLES[rnd.randrange(2)]))
    out.append(('parens', tree, 'MATH', STYLES[1]))
    if ref_type is not None and ref_type != rt.LOGIC and tree[0] not in ('PUNC_DEFINE', 'PUNC_STRUCT', 'NT_FUNC_DEFINITION'):
        out.append(('debool-wrap', N('DEBOOL', None, [N(rnd.choice(['BOOL', 'NT_ENUMERATION']), None, [tree])]), 'MATH', STYLES[0]))
        if ref_type[0] == 's' and tree[0] != 'LIT_EMPTYSET':
            out.append(('declarative-copy', N('NT_DECLARATIVE_EXPR', None, [N('ID_LOCAL', 'q_'), tree, N('EQUAL', None, [N('LIT_INTEGER', 1), N('LIT_INTEGER', 1)])]), 'MATH', STYLES[0]))
            out.append(('imperative-copy', N('NT_IMPERATIVE_EXPR', None, [N('ID_LOCAL', 'q_'), N('ITERATE', None, [N('ID_LOCAL', 'q_'), tree])]), 'MATH', STYLES[0]))
    return out


def build_cases(rnd, tier, nctx, per_ctx, big=False, mutants=0.25):
    cases = []
    for _ in range(nctx):
        g = ty.TypedGen(rnd, big=big)
        ctx = g.make_context(empty_bases=0.08)
        ops = [{'op': 'rs.ctx', 'ctx': 'c', 'spec': ctx.spec()}]
        items = []
        ref = ctx.ref()
        for _ in range(per_ctx):
            tree = g.expression(rnd.choice([1, 2, 2, 3, 3, 4]))
            mut = 'none'
            if rnd.random() < mutants:
                tree, mut = ty.mutate(tree, g, rnd)
            if rnd.random() < 0.08 and not rg.is_logic(tree):
                tree = N('PUNC_DEFINE', None, [N('ID_GLOBAL', 'D9'), tree])
            if rg.count_nodes(tree) > 90:
                continue
            res = rt.check_expression(tree, ref)
            rtype = res['type'] if res['status'] == 'ok' else None
            vs = variants(tree, rtype, rnd) if res['status'] == 'ok' else [('math', tree, 'MATH', STYLES[0])]
            for label, vt, syntax, style in vs:
                src = rg.map_locals(vt, (lambda x: x) if syntax == 'MATH' else rg.translit)
                text, _sp = rg.render(src, syntax, rnd, **style)
                ops.append({'op': 'rs.eval', 'ctx': 'c', 'text': text, 'syntax': syntax})
                items.append({'tree': src, 'base': label == 'math', 'variant': label, 'mut': mut, 'text': text, 'syntax': syntax})
        meta_ctx = {'types': ctx.types, 'funcs': ctx.funcs, 'traits': ctx.traits, 'vclass': ctx.vclass, 'bodies': ctx.bodies,
                    'data': {k: (v if isinstance(v, bool) else sm.enum_spec(v)) for k, v in ctx.data.items()}}
        cases.append(core.case(ops, kind='evalctx', ctx=meta_ctx, items=items))
    return cases


def load_ctx(m):
    from .p03 import to_type
    return {'types': {k: to_type(v) for k, v in m['types'].items()},
            'funcs': {k: [(a, to_type(t)) for a, t in v] for k, v in m['funcs'].items()},
            'traits': m['traits'], 'vclass': m['vclass'], 'bodies': m['bodies'],
            'data': {k: (v if isinstance(v, bool) else sm.from_obs(v)) for k, v in m['data'].items()}}


def lib_value(ev):
    """library result -> ('value', v) | ('error', [eids]) """
    if ev.get('has'):
        if 'bool' in ev:
            return ('value', ev['bool'])
        try:
            return ('value', sm.from_obs(ev['val']))
        except ValueError:
            return ('big', None)
    return ('error', [e['eid'] for e in ev['errors'] if e['crit']])


def is_evaluable(tree):
    i = tree[0]
    if i == 'PUNC_DEFINE':
        return len(tree[2]) == 2 and tree[2][0][0] == 'ID_GLOBAL' and tree[2][1][0] != 'NT_FUNC_DEFINITION'
    return i not in ('PUNC_STRUCT', 'NT_FUNC_DEFINITION')


def single_replay_case(cs, op, item):
    return {'ops': [cs['ops'][0], op], 'meta': {'kind': 'evalctx', 'ctx': cs['meta']['ctx'], 'items': [item]}}
