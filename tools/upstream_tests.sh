#!/bin/bash
# Builds upstream's own rslang and core gtest suites (which the pinned baseline cannot build because of -Werror) with
# warnings off against the current /repo working tree (or $VERIF_REPO) in a scratch directory, runs them, removes the scratch.
# Usage: tools/upstream_tests.sh            prints one summary line per suite; exit 0 iff both have no failures
W=${VERIF_REPO:-/repo}
S=$(mktemp -d /tmp/upt.XXXXXX)
trap 'rm -rf $S' EXIT
INCS="-I$W/ccl/cclCommons/include -I$W/ccl/cclGraph/include -I$W/ccl/cclLang/include -I$W/ccl/rslang/include -I$W/ccl/core/include -I$W/ccl/core/header -I$W/ccl/rslang/header -I$W/ccl/rslang/import/reflex/include -I$W/ccl/cclLang/header -I$W/ccl/core/import/include -I$W/ccl/rslang/import/include"
cd $S
( find $W/ccl/core/src $W/ccl/rslang/src $W/ccl/cclLang/src $W/ccl/cclGraph/src -name '*.cpp'; echo $W/ccl/rslang/unity/reflex_unity1.cpp; echo $W/ccl/rslang/unity/reflex_unity2.cpp ) | \
  CCACHE_DIR=/verif/.cache/ccache xargs -P 16 -I{} sh -c 'ccache g++ -std=c++20 -O1 -g1 -w '"$INCS"' -c {} -o $(echo {} | md5sum | cut -c1-8)_$(basename {} .cpp).o' > build.log 2>&1
ar rcs libccl.a *.o || { echo "library build failed"; tail -5 build.log; exit 2; }
RC=0
for suite in rslang:rslTest core:cclTest; do
  dir=${suite%%:*}; unity=${suite##*:}
  T=$W/ccl/$dir/test
  if ! CCACHE_DIR=/verif/.cache/ccache ccache g++ -std=c++20 -O1 -g1 -w $INCS -I$T/utils -I$W/ccl/$dir/header -I$W/ccl/$dir/import/include $T/unity/$unity.cpp libccl.a -lgtest -lgtest_main -lpthread -o $unity > $unity.build.log 2>&1; then
    echo "UPSTREAM $dir: test build failed: $(grep -m3 error $unity.build.log | tr '\n' ' ' | cut -c1-300)"; RC=2; continue
  fi
  ( cd $T && timeout 1800 $S/$unity --gtest_brief=1 > $S/$unity.out 2>&1 )
  echo "UPSTREAM $dir: $(grep -E '^\[  (PASSED|FAILED)  \]' $unity.out | tr '\n' ' ')"
  grep -E '^\[  FAILED  \] [A-Za-z]' $unity.out | sort -u | head -20
  grep -q 'FAILED' $unity.out && RC=1
  grep -q 'PASSED' $unity.out || RC=2
done
exit $RC
