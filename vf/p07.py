"""C07 — incremental schema re-analysis equals analysis from scratch after any edits."""
from . import core
from . import formgen as fg

PROP = 'C07'
RULE = ('seeded histories of 10-60 RSForm operations (Emplace, InsertCopy single/bulk from records and from another '
        'schema, Erase, SetExpressionFor incl. invalid / self-referential / cyclic / duplicate-of-another / same-tree-'
        'other-text definitions, SetAliasFor with and without substitution, SetTermFor/SetTermFormFor/SetDefinitionFor '
        'with references, SetConventionFor, MoveBefore, ResetAliases, UpdateState, tracking, DeleteDuplicates) with '
        'arguments drawn from the current state; after EVERY operation the live schema is compared, constituent by '
        'constituent, with a schema freshly loaded from its minimal JSON (no cached parse or resolved text): status, '
        'typification, arguments, value class, syntax tree, dependency edges, and - when the reported term-reference '
        'edges are acyclic - resolved term, a word form and resolved definition text. Deterministic uids (CCL_VERIF '
        'hook). Distinct = hash of the script; non-trivial = >= 1 incremental edit followed by a changed observation.')
ASSUMPTIONS = ['both sides of the comparison are real code; the oracle is the equation incremental == from scratch',
               'syntax trees are compared as AST strings (positions ignored: an unchanged tree may keep old positions)']
MIN_JUDGED = {'quick': 3000, 'thorough': 60000}
NSH = 32
FIELDS = ['status', 'typ', 'args', 'vclass', 'ast', 'inputs', 'alias', 'type', 'def', 'conv', 'term_raw', 'text_raw']
TEXT_FIELDS = ['term_str', 'text_str', 'form_sd']


def shards(tier, seed):
    return [{'i': i} for i in range(NSH)]


def big_history(rnd, hist_id):
    """a schema of more than 64 constituents, erasures without any insertion afterwards, then edits near the head whose
    dependants sit 64 positions further (internal indices of the dependency graph are not compacted by erasures)"""
    ops = [{'op': 'env.processor', 'mode': 'tagging'}, {'op': 'form.seed', 'seed': hist_id}, {'op': 'form.op', 'f': 'a', 'k': 'new'},
           {'op': 'form.op', 'f': 'a', 'k': 'emplace', 'type': 'basic'}]
    n = rnd.choice([66, 68, 72])
    for i in range(1, n):
        d = '$[0]' if i < 4 or rnd.random() < 0.5 else rnd.choice(['$[%d]∪$[%d]' % (i - 64 if i > 64 else rnd.randrange(i), rnd.randrange(i)), 'ℬ($[%d])' % rnd.randrange(i)])
        ops.append({'op': 'form.op', 'f': 'a', 'k': 'emplace', 'type': 'term', 'def': d})
    plan = [None] * len(ops)
    steps = [{'op': 'form.op', 'f': 'a', 'k': 'erase', 'uid': {'idx': rnd.randrange(4, n - 8)}} for _ in range(rnd.randint(2, 5))]
    for _ in range(rnd.randint(3, 8)):
        steps.append({'op': 'form.op', 'f': 'a', 'k': 'setexpr', 'uid': {'idx': rnd.randrange(1, 6)}, 'text': rnd.choice(['ℬ($[0])', '$[0]×$[0]', '$[0]', '((', '{$[0]}'])})
    for op in steps:
        ops.append(op)
        plan.append('op')
        ops.append({'op': 'form.snap', 'f': 'a', 'fresh': True})
        plan.append('snap')
    return core.case(ops, kind='history', plan=plan)


def history(rnd, hist_id, length, skip_resolve=False):
    if hist_id % 10 == 7:
        return big_history(rnd, hist_id)
    ops = [{'op': 'env.processor', 'mode': 'tagging'}, {'op': 'form.seed', 'seed': hist_id}]
    ops += fg.seed_ops(rnd, 'b', n_base=2, n_derived=3)
    ops += fg.seed_ops(rnd, 'a', n_base=rnd.choice([1, 2, 2, 3]), n_derived=rnd.choice([2, 4, 6]))
    plan = [None] * len(ops)
    steps = 0
    while steps < length:
        span = rnd.choice([6, 10, 14])
        batch = fg.motif(rnd, 'a', span) if rnd.random() < 0.08 else [fg.edit_op(rnd, 'a', span=span, other='b')]
        for op in batch:
            ops.append(op)
            plan.append('op')
            ops.append({'op': 'form.snap', 'f': 'a', 'fresh': True})
            plan.append('snap')
            steps += 1
    return core.case(ops, kind='history', plan=plan)


def acyclic(items, key):
    graph = {u: set(it[key]) for u, it in items.items()}
    state = {}

    def visit(u):
        stack = [(u, iter(graph.get(u, ())))]
        state[u] = 1
        while stack:
            node, it = stack[-1]
            for v in it:
                v = str(v)
                if state.get(v) == 1:
                    return False
                if v not in state:
                    state[v] = 1
                    stack.append((v, iter(graph.get(v, ()))))
                    break
            else:
                state[node] = 2
                stack.pop()
        return True

    for u in graph:
        if u not in state and not visit(u):
            return False
    return True


def judge(res, cs, cr):
    if not core.std_death_checks(res, PROP, cs, cr):
        return
    prev_items = None
    last_op = None
    edits = 0
    changed = 0
    trace = []
    for idx, (op, ev, pl) in enumerate(zip(cs['ops'], cr.events, cs['meta']['plan'])):
        if pl == 'op':
            last_op = (op, ev)
            trace.append({k: v for k, v in op.items() if k not in ('op', 'f')})
            res.cover('op:' + op['k'])
            if op['k'] in ('setexpr', 'setterm', 'setdef', 'settermform', 'erase', 'setalias') and ev.get('ret'):
                edits += 1
            continue
        if pl != 'snap':
            continue
        live, fresh = ev['snap'], ev['fresh']
        bad = None
        if live['list'] != fresh['list'] and sorted(live['list']) != sorted(fresh['list']):
            bad = ('constituents', f"live list {live['list']} vs fresh {fresh['list']}")
        term_ok = acyclic(live['items'], 'term_inputs')
        for uid, it in live['items'].items():
            fr = fresh['items'].get(uid)
            if fr is None:
                bad = bad or ('constituents', f'{uid} missing in the fresh schema')
                continue
            for f in FIELDS:
                if it[f] != fr[f]:
                    bad = bad or (f'stale-{f}:{last_op[0]["k"]}', f"{it['alias']} ({uid}): {f} incrementally {it[f]!r}, from scratch {fr[f]!r}")
            if term_ok:
                for f in TEXT_FIELDS:
                    if it[f] != fr[f]:
                        bad = bad or (f'stale-{f}:{last_op[0]["k"]}', f"{it['alias']} ({uid}): {f} incrementally {it[f]!r}, from scratch {fr[f]!r}")
            else:
                res.count('unspecified')
            res.count('judged', len(FIELDS) + len(TEXT_FIELDS))
        if prev_items is not None and prev_items != live['items']:
            changed += 1
        prev_items = live['items']
        res.count('snapshots')
        if bad:
            defs = {it['alias']: it['def'] for it in live['items'].values()}
            res.violation(f'{PROP}/incremental/{bad[0]}', f"after {last_op[0]} -> {last_op[1].get('args')} ret={last_op[1].get('ret')}: {bad[1]}; definitions {defs}; history {trace[-6:]}",
                          {'ops': cs['ops'][:idx + 1], 'meta': {'kind': 'history', 'plan': cs['meta']['plan'][:idx + 1]}})
            break
    res.judged(repr(cs['ops']), nontrivial=edits >= 1 and changed >= 1)
    res.counters['judged'] -= 1
    res.count('histories')
    if edits >= 3:
        res.sample({'ops': trace[:8], 'length': len(trace)}, limit=1)


def run_shard(desc, env):
    res = core.ShardResult()
    rnd = env.rng('c07', desc['i'])
    n = 10 if env.tier == 'quick' else 300
    cases = [history(rnd, desc['i'] * 100000 + k, rnd.randint(10, 60)) for k in range(n)]
    for cs, cr in env.execute(cases, chunk=10):
        judge(res, cs, cr)
    return res


def replay(cs, env):
    res = core.ShardResult()
    for c, cr in env.execute([cs]):
        judge(res, c, cr)
    return res
