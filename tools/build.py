#!/usr/bin/env python3
"""Build the ConceptCore library + ccdrive from /repo's CURRENT working tree.

Usage: build.py [variant]      -> prints the path of the driver executable on stdout.

The output directory is keyed by a hash of every source byte + the flags, so a changed tree can
never be served a stale binary; per-TU object reuse comes from ccache (CCACHE_DIR inside /verif).
"""
import hashlib
import os
import shutil
import subprocess
import sys
import time
from concurrent.futures import ThreadPoolExecutor

VERIF = os.path.dirname(os.path.dirname(os.path.abspath(__file__)))
REPO = os.environ.get('VERIF_REPO', '/repo')
CACHE = os.environ.get('VERIF_CACHE', os.path.join(VERIF, '.cache'))
CCL = os.path.join(REPO, 'ccl')

INCLUDES = [
    'cclCommons/include', 'cclGraph/include', 'cclLang/include', 'rslang/include', 'core/include',
    'core/import/include', 'core/header', 'cclGraph/header', 'cclGraph/import/include',
    'rslang/header', 'rslang/import/include', 'rslang/import/reflex/include',
    'cclLang/header', 'cclLang/import/include',
]

VARIANTS = {
    'san': dict(
        cxx='g++',
        flags=['-std=c++20', '-O1', '-g1', '-fno-omit-frame-pointer',
               '-fsanitize=address,undefined', '-fno-sanitize-recover=all',
               '-D_GLIBCXX_ASSERTIONS', '-DNDEBUG', '-DCCL_VERIF', '-w'],
        ldflags=['-fsanitize=address,undefined', '-rdynamic'],
    ),
    'plain': dict(
        cxx='g++',
        flags=['-std=c++20', '-O1', '-g1', '-fno-omit-frame-pointer', '-DNDEBUG', '-DCCL_VERIF', '-w'],
        ldflags=['-rdynamic'],
    ),
}


def lib_sources():
    out = []
    for sub in ('core/src', 'rslang/src', 'cclLang/src', 'cclGraph/src'):
        for root, _dirs, files in os.walk(os.path.join(CCL, sub)):
            for f in sorted(files):
                if f.endswith('.cpp'):
                    out.append(os.path.join(root, f))
    out.append(os.path.join(CCL, 'rslang/unity/reflex_unity1.cpp'))
    out.append(os.path.join(CCL, 'rslang/unity/reflex_unity2.cpp'))
    return sorted(out)


def driver_sources():
    d = os.path.join(VERIF, 'driver')
    return sorted(os.path.join(d, f) for f in os.listdir(d) if f.endswith('.cpp'))


def tree_hash(variant):
    h = hashlib.sha256()
    h.update(repr(VARIANTS[variant]).encode())
    roots = [CCL, os.path.join(REPO, 'pyconcept', 'src'), os.path.join(REPO, 'pyconcept', 'include'),
             os.path.join(VERIF, 'driver')]
    for r in roots:
        for root, dirs, files in os.walk(r):
            dirs[:] = sorted(d for d in dirs if d not in ('test', '.git', '_build'))
            for f in sorted(files):
                if not f.endswith(('.cpp', '.h', '.hpp', '.hh', '.l', '.y')):
                    continue
                p = os.path.join(root, f)
                h.update(p.encode())
                with open(p, 'rb') as fh:
                    h.update(hashlib.sha256(fh.read()).digest())
    return h.hexdigest()[:16]


def compile_one(args):
    cxx, flags, src, obj, env = args
    cmd = ['ccache', cxx] + flags + ['-c', src, '-o', obj]
    r = subprocess.run(cmd, env=env, stdout=subprocess.PIPE, stderr=subprocess.STDOUT)
    return src, r.returncode, r.stdout.decode('utf-8', 'replace')


def prune(build_root, keep):
    try:
        ents = [os.path.join(build_root, e) for e in os.listdir(build_root)]
    except FileNotFoundError:
        return
    ents = [e for e in ents if os.path.isdir(e)]
    ents.sort(key=lambda p: os.path.getmtime(p), reverse=True)
    now = time.time()
    for e in ents[keep:]:
        if now - os.path.getmtime(e) < 6 * 3600:
            continue        # possibly still in use by a long (thorough) run
        shutil.rmtree(e, ignore_errors=True)


def build(variant='san', quiet=False):
    v = VARIANTS[variant]
    th = tree_hash(variant)
    build_root = os.path.join(CACHE, 'build')
    out = os.path.join(build_root, f'{variant}-{th}')
    exe = os.path.join(out, 'ccdrive')
    if os.path.exists(exe):
        os.utime(out, None)
        return exe
    lock = os.path.join(CACHE, 'build.lock')
    os.makedirs(build_root, exist_ok=True)
    import fcntl
    with open(lock, 'w') as lf:
        fcntl.flock(lf, fcntl.LOCK_EX)
        if os.path.exists(exe):
            return exe
        t0 = time.time()
        tmp = out + '.tmp'
        shutil.rmtree(tmp, ignore_errors=True)
        os.makedirs(tmp)
        env = dict(os.environ)
        env['CCACHE_DIR'] = os.path.join(CACHE, 'ccache')
        env['CCACHE_BASEDIR'] = '/'
        env['CCACHE_MAXSIZE'] = '4G'
        env.setdefault('CCACHE_NOHASHDIR', '1')
        incs = []
        for i in INCLUDES:
            incs += ['-I', os.path.join(CCL, i)]
        incs += ['-I', os.path.join(VERIF, 'driver', 'stub'), '-I', os.path.join(VERIF, 'driver'),
                 '-I', os.path.join(REPO, 'pyconcept', 'include')]
        jobs = []
        objs = []
        srcs = lib_sources() + driver_sources()
        pyc = os.path.join(REPO, 'pyconcept', 'src', 'pyconcept.cpp')
        if os.path.exists(pyc):
            srcs.append(pyc)
        # JSON.cpp and big TUs first
        srcs.sort(key=lambda p: -os.path.getsize(p))
        for n, s in enumerate(srcs):
            obj = os.path.join(tmp, f'{n:03d}_' + os.path.basename(s)[:-4] + '.o')
            objs.append(obj)
            jobs.append((v['cxx'], v['flags'] + incs, s, obj, env))
        failed = []
        with ThreadPoolExecutor(max_workers=int(os.environ.get('VERIF_JOBS', '16'))) as ex:
            for src, rc, outp in ex.map(compile_one, jobs):
                if rc != 0:
                    failed.append((src, outp))
        if failed:
            for src, outp in failed:
                sys.stderr.write(f'BUILD FAILED: {src}\n{outp[-6000:]}\n')
            shutil.rmtree(tmp, ignore_errors=True)
            raise SystemExit(2)
        r = subprocess.run([v['cxx']] + objs + v['ldflags'] + ['-o', os.path.join(tmp, 'ccdrive'), '-ldl'],
                           stdout=subprocess.PIPE, stderr=subprocess.STDOUT)
        if r.returncode != 0:
            sys.stderr.write('LINK FAILED\n' + r.stdout.decode('utf-8', 'replace')[-8000:])
            shutil.rmtree(tmp, ignore_errors=True)
            raise SystemExit(2)
        for o in objs:
            os.unlink(o)
        with open(os.path.join(tmp, 'tree_hash'), 'w') as f:
            f.write(th)
        shutil.rmtree(out, ignore_errors=True)
        os.rename(tmp, out)
        prune(build_root, int(os.environ.get('VERIF_KEEP_BUILDS', '6')))
        if not quiet:
            sys.stderr.write(f'[build] {variant}-{th} built in {time.time() - t0:.1f}s\n')
    return exe


if __name__ == '__main__':
    variant = sys.argv[1] if len(sys.argv) > 1 else 'san'
    print(build(variant))
