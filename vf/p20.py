"""C20 — UTF-8 string utilities and interval algebra agree with their definitions."""
import itertools
import json
import re

from . import core

PROP = 'C20'
RULE = ('strings: every string of <= L code points over the alphabet {a, space, comma, 1, -, U+0080, U+07FF, U+0800, U+FFFF, U+10000, U+10FFFF} '
        '(L=4 quick, L=5 thorough) plus seeded random long strings with tabs/newlines; per string all iterator '
        'positions in [-1,n+2], all code-point ranges a<=b in [-1,n+2]^2, split/trim/integer recognition. '
        'ranges: all ordered pairs of ranges with start<=finish in a window ([0,7] quick, [-2,9] thorough), all '
        'point queries, shifts and random merge lists. A case is distinct by its input (string or range pair) and '
        'non-trivial when the string has >=2 code points / the pair is not two identical ranges.')
ASSUMPTIONS = [
    'reference semantics: Python str/bytes after decoding well-formed UTF-8; Allen relations by end points',
    'Overlaps with an empty operand is not judged (the property defines it as non-empty common part of ranges); '
    'Contains(range) with an empty argument is judged by the rule stated in the header (point membership of its end)',
    'ranges with start > finish violate the documented precondition and are not generated',
]
EXHAUSTIVE = ['strings of <= L code points over the 8-symbol alphabet', 'range pairs in the window']
MIN_JUDGED = {'quick': 5000, 'thorough': 100000}

# boundary code points of every UTF-8 length class: U+0080/U+07FF (2 bytes), U+0800/U+FFFF (3), U+10000/U+10FFFF (4)
ALPHA = ['a', ' ', ',', '1', '-', '\u0080', '\u07ff', '\u0800', '\uffff', '\U00010000', '\U0010ffff']
NSHARDS = 32


def shards(tier, seed):
    return [{'kind': 'strings', 'i': i} for i in range(NSHARDS)] + \
           [{'kind': 'ranges', 'i': i} for i in range(4)] + \
           [{'kind': 'random', 'i': i} for i in range(8)]


def string_case(s, extra_delims=(' ',)):
    n = len(s)
    pts = list(range(-1, n + 3))
    ranges = [[a, b] for a in pts for b in pts if a <= b]
    ops = [{'op': 'str.scan', 's': s, 'at': [p for p in pts if p >= -1], 'ranges': ranges},
           {'op': 'str.split', 's': s},
           {'op': 'str.trim', 's': s}]
    for d in extra_delims:
        ops.append({'op': 'str.split', 's': s, 'delim': d})
    return core.case(ops, kind='string', s=s)


def view_bytes(b, view):
    if view.get('null'):
        return b'' if view['len'] == 0 else None
    off, ln = view['off'], view['len']
    if off < 0 or off + ln > len(b) or ln < 0:
        return None
    return b[off:off + ln]


WS = b' \t\n\r\x0b\x0c'


def judge_string(res, cs, cr):
    s = cs['meta']['s']
    b = s.encode('utf-8')
    n = len(s)
    ev_scan, ev_split, ev_trim = cr.events[0], cr.events[1], cr.events[2]
    bad = []
    # iteration
    offs = []
    o = 0
    for ch in s:
        offs.append(o)
        o += len(ch.encode('utf-8'))
    exp_trace = [[i, offs[i], len(s[i].encode('utf-8')), b[offs[i]]] for i in range(n)]
    if ev_scan['cplen'] != n:
        bad.append(('cplen', f"SizeInCodePoints={ev_scan['cplen']} expected {n}"))
    if ev_scan['trace'] != exp_trace or ev_scan.get('runaway'):
        bad.append(('iterate', f"iteration trace {ev_scan['trace'][:8]} expected {exp_trace[:8]}"))
    ops0 = cs['ops'][0]
    for p, got in zip(ops0['at'], ev_scan['at']):
        if 0 <= p < n:
            exp = [p, offs[p], False]
            if got != exp:
                bad.append(('iter-at', f'UTF8Iterator(s,{p}) -> {got} expected {exp}'))
        else:
            if got[0] != -1 or got[2] is not True:
                bad.append(('iter-at', f'UTF8Iterator(s,{p}) out of range -> {got} expected end'))
    for (a_, b_), view in zip(ops0['ranges'], ev_scan['substr']):
        exp = s[a_:b_].encode('utf-8') if 0 <= a_ <= b_ <= n else b''
        got = view_bytes(b, view)
        if got != exp:
            bad.append(('substr', f'Substr(s,[{a_},{b_})) -> {view} = {got!r} expected {exp!r}'))
        elif exp and view.get('off') != offs[a_]:
            bad.append(('substr', f'Substr(s,[{a_},{b_})) view offset {view} expected {offs[a_]}'))
    # split
    def check_split(ev, delim):
        exp = b.split(delim)
        got = [view_bytes(b, v) for v in ev['parts']]
        if got != exp:
            bad.append(('split', f'SplitBySymbol({delim!r}) -> {got} expected {exp}'))
        else:
            # pieces must be views at the right offsets
            pos = 0
            for piece, v in zip(exp, ev['parts']):
                if piece and v.get('off') != pos:
                    bad.append(('split', f'SplitBySymbol piece offset {v} expected {pos}'))
                    break
                pos += len(piece) + 1
    check_split(ev_split, b',')
    for op, ev in zip(cs['ops'][3:], cr.events[3:]):
        check_split(ev, op['delim'].encode())
    # trim
    exp = b.strip(WS)
    got = view_bytes(b, ev_trim['view'])
    if got != exp:
        bad.append(('trim', f"TrimWhitespace -> {ev_trim['view']} = {got!r} expected {exp!r}"))
    elif exp:
        lead = len(b) - len(b.lstrip(WS))
        if ev_trim['view'].get('off') != lead:
            bad.append(('trim', f"TrimWhitespace offset {ev_trim['view']} expected {lead}"))
    exp_int = re.fullmatch(rb'-?[0-9]+', b) is not None
    if ev_trim['isint'] != exp_int:
        bad.append(('isint', f"IsInteger -> {ev_trim['isint']} expected {exp_int}"))
    for what, msg in bad[:3]:
        res.violation(f'{PROP}/strings/{what}', f'input {s!r}: {msg}', cs)
    res.count('string_ops', len(cs['ops']))
    res.count('substr_ranges', len(ops0['ranges']))
    for ch in s:
        res.cover(f'utf8-{len(ch.encode("utf-8"))}byte')
    res.judged('S:' + s, nontrivial=n >= 2)
    res.count('judged', len(ops0['ranges']) + len(ops0['at']) + len(cs['ops']) - 1)


def ref_pair(a, b):
    (as_, af), (bs, bf) = a, b
    out = {
        'eq': as_ == bs and af == bf,
        'ne': not (as_ == bs and af == bf),
        'before': af < bs,
        'after': as_ > bf,
        'meets': af == bs,
        'shares': af == bs or bf == as_,
        'starts': as_ == bs and af < bf,
        'finishes': af == bf and as_ > bs,
        'during': as_ > bs and af < bf,
        'merge': [min(as_, bs), max(af, bf)],
    }
    a_empty, b_empty = as_ == af, bs == bf
    if not a_empty and not b_empty:
        out['overlaps'] = max(as_, bs) < min(af, bf)
    if not b_empty:
        out['contains'] = as_ <= bs and af >= bf
    else:
        out['contains'] = as_ <= bf < af   # header: Contains(rhs.finish)
    # point-set intersection of the closed hulls as the header defines it: absent iff there is a gap
    if af < bs or as_ > bf:
        out['intersect'] = None
    else:
        out['intersect'] = [max(as_, bs), min(af, bf)]
    return out


def judge_pair(res, cs, cr):
    a, b = cs['meta']['a'], cs['meta']['b']
    ev, ev_rev = cr.events[0], cr.events[1]
    exp = ref_pair(a, b)
    bad = []
    for k, v in exp.items():
        if ev.get(k) != v:
            bad.append((k, f'{k}({a},{b}) -> {ev.get(k)} expected {v}'))
    if 'overlaps' not in exp:
        res.count('unspecified')
    # dualities between the two real answers
    if ev['before'] != ev_rev['after'] or ev['after'] != ev_rev['before']:
        bad.append(('dual-before-after', f'IsBefore/IsAfter not dual on {a},{b}'))
    if ev['shares'] != ev_rev['shares']:
        bad.append(('sym-shares', f'SharesBorder not symmetric on {a},{b}'))
    if ev['overlaps'] != ev_rev['overlaps']:
        bad.append(('sym-overlaps', f'Overlaps not symmetric on {a},{b}'))
    if a[0] != a[1] and (ev['starts'] or ev['finishes'] or ev['during']) and not ev_rev['contains']:
        bad.append(('sub-contains', f'Starts/Finishes/IsDuring without Contains on {a},{b}'))
    if ev['intersect'] != ev_rev['intersect'] or ev['merge'] != ev_rev['merge']:
        bad.append(('sym-intersect', f'Intersect/Merge not symmetric on {a},{b}'))
    for what, msg in bad[:3]:
        res.violation(f'{PROP}/ranges/{what}', msg, cs)
    res.judged(f'P:{a}:{b}', nontrivial=a != b)
    res.count('judged', len(exp) - 1)
    res.count('range_pairs')


def judge_one(res, cs, cr):
    a = cs['meta']['a']
    k = cs['meta']['k']
    ev = cr.events[0]
    exp = {
        'length': a[1] - a[0], 'empty': a[0] == a[1],
        'points': [a[0] <= p < a[1] for p in cs['ops'][0]['points']],
        'fromlen': [a[0], a[0] + k], 'setlen': [a[0], a[0] + k], 'shift': [a[0] + k, a[1] + k],
        'cend': [a[1], a[1]], 'cstart': [a[0], a[0]],
    }
    for key, v in exp.items():
        if ev.get(key) != v:
            res.violation(f'{PROP}/ranges/{key}', f'{key} on {a} k={k} -> {ev.get(key)} expected {v}', cs)
    res.judged(f'O:{a}:{k}')
    res.count('judged', len(exp) - 1)


def judge_merge(res, cs, cr):
    lst = cs['meta']['list']
    exp = [min(r[0] for r in lst), max(r[1] for r in lst)] if lst else [0, 0]
    if cr.events[0]['merge'] != exp:
        res.violation(f'{PROP}/ranges/merge-list', f"Merge({lst}) -> {cr.events[0]['merge']} expected {exp}", cs)
    res.judged(f'M:{lst}', nontrivial=len(lst) >= 2)


def judge(res, cs, cr):
    if not core.std_death_checks(res, PROP, cs, cr):
        return
    kind = cs['meta']['kind']
    if kind == 'string':
        judge_string(res, cs, cr)
    elif kind == 'pair':
        judge_pair(res, cs, cr)
    elif kind == 'one':
        judge_one(res, cs, cr)
    elif kind == 'merge':
        judge_merge(res, cs, cr)
    elif kind == 'charsize':
        exp = [1 if b < 0x80 else (2 if (b & 0x20) == 0 else (3 if (b & 0x10) == 0 else 4)) for b in range(256)]
        # judged only on valid lead bytes of well-formed UTF-8
        for b in list(range(0x00, 0x80)) + list(range(0xC2, 0xF5)):
            if cr.events[0]['sizes'][b] != exp[b]:
                res.violation(f'{PROP}/strings/charsize', f'UTF8CharSize({b:#x})', cs)
        res.judged('charsize')


def gen_cases(desc, env):
    tier = env.tier
    kind = desc['kind']
    cases = []
    if kind == 'strings':
        maxlen = 4 if tier == 'quick' else 5
        idx = 0
        for ln in range(0, maxlen + 1):
            for tup in itertools.product(ALPHA, repeat=ln):
                if idx % NSHARDS == desc['i']:
                    cases.append(string_case(''.join(tup)))
                idx += 1
        if desc['i'] == 0:
            cases.append(core.case([{'op': 'str.charsize'}], kind='charsize'))
    elif kind == 'ranges':
        lo, hi = (0, 7) if tier == 'quick' else (-2, 9)
        rngs = [[s, f] for s in range(lo, hi + 1) for f in range(s, hi + 1)]
        idx = 0
        for a in rngs:
            for b in rngs:
                if idx % 4 == desc['i']:
                    cases.append(core.case([{'op': 'range.pair', 'a': a, 'b': b}, {'op': 'range.pair', 'a': b, 'b': a}],
                                           kind='pair', a=a, b=b))
                idx += 1
        if desc['i'] == 0:
            for a in rngs:
                for k in (0, 1, 3):
                    cases.append(core.case([{'op': 'range.one', 'a': a, 'points': list(range(lo - 1, hi + 2)), 'k': k}],
                                           kind='one', a=a, k=k))
        rnd = env.rng('merge', desc['i'])
        for _ in range(200 if tier == 'quick' else 3000):
            lst = []
            for _ in range(rnd.randint(0, 6)):
                s = rnd.randint(-50, 50)
                lst.append([s, s + rnd.randint(0, 30)])
            cases.append(core.case([{'op': 'range.merge', 'list': lst}], kind='merge', list=lst))
    elif kind == 'random':
        rnd = env.rng('random', desc['i'])
        alpha = ['a', ' ', ',', '1', '-', '\t', '\n', '\r', '0', '9', 'Z', '\x0b', '\x0c',
                 '\u0080', '\u07ff', '\u0800', '\u0fff', '\uffff', '\U00010000', '\U0010ffff', 'б', '€', '∃',
                 '\U0001F600', '\U00010348']
        profiles = [None,
                    [1, 8, 1, 1, 1, 3, 3, 2, 1, 1, 1, 2, 2] + [1] * 12,      # whitespace heavy (trim)
                    [1, 1, 8, 1, 1] + [1] * 20,                              # comma heavy (split)
                    [0, 0, 0, 6, 3, 0, 0, 0, 6, 6] + [0] * 15]               # digits and minus (IsInteger)
        for _ in range(60 if tier == 'quick' else 1500):
            ln = rnd.randint(5, 14)
            weights = rnd.choice(profiles)
            s = ''.join(rnd.choices(alpha, weights=weights, k=ln))
            cases.append(string_case(s, extra_delims=(' ', '-', '\n')))
        if desc['i'] == 0:
            # integer literals of any length are integers (no machine word is implied by "a string of digits")
            for digits in (9, 10, 11, 18, 19, 20, 21, 39, 40, 100):
                for lead in ('', '-'):
                    for fill in ('9', '1', '0', '12345678901234567890'):
                        body = (fill * digits)[:digits]
                        cases.append(string_case(lead + body, extra_delims=('-',)))
                        cases.append(string_case(lead + body + 'a', extra_delims=('-',)))
            for s in ('2147483647', '2147483648', '-2147483648', '-2147483649', '9223372036854775807', '9223372036854775808', '-9223372036854775808',
                      '-9223372036854775809', '18446744073709551615', '18446744073709551616', '--1', '-', '1-', '+1', ' 1', '1 ', '١٢٣'):
                cases.append(string_case(s, extra_delims=('-',)))
    return cases


def run_shard(desc, env):
    res = core.ShardResult()
    cases = gen_cases(desc, env)
    for cs, cr in env.execute(cases):
        judge(res, cs, cr)
        if cs['meta']['kind'] == 'string' and len(cs['meta']['s']) >= 3:
            res.sample({'string': cs['meta']['s'], 'ops': [o['op'] for o in cs['ops']],
                        'ranges_checked': len(cs['ops'][0]['ranges'])}, limit=1)
        elif cs['meta']['kind'] == 'pair' and cs['meta']['a'] != cs['meta']['b']:
            res.sample({'range_pair': [cs['meta']['a'], cs['meta']['b']], 'observed': cr.events[0] if cr.events else None}, limit=1)
    return res


def replay(cs, env):
    res = core.ShardResult()
    for c, cr in env.execute([cs]):
        judge(res, c, cr)
    return res
