"""C03 — type checker verdict and typification follow the RSLang typing rules."""
from . import core
from . import rsgen as rg
from . import rstypes as rt
from . import rstyped as ty

PROP = 'C03'
RULE = ('seeded random type contexts (nominal base sets, integer-like constant sets, structures and terms of depth <= 3, '
        'templated term-functions and predicates with generated bodies, logic-typed names, property-class globals); per '
        'context type-directed expressions (logic, set, integer, tuple; every constructor incl. tuple/enumerated '
        'binders, declarative, imperative, both recursions, filters, projections, calls), their near-miss mutants '
        '(wrong index/arity/type/operator category, undeclared/shadowed locals, empty set in forbidden positions, '
        'logic-typed or function names in set positions) and global/function definitions, rendered in MATH and ASCII, '
        'are checked by the real Auditor; verdict, typification, declared arguments and value class are compared with '
        'the reference rules of vf/rstypes.py, and every critical error position must lie inside the input. '
        'Distinct = hash of (context, text); non-trivial = >= 5 nodes.')
ASSUMPTIONS = [
    'vf/rstypes.py is the statement of the typing rules (DESIGN.md appendix A); constructs whose result the rules do '
    'not determine (recursion that does not stabilise in 5 rounds, tuple pattern against the any-type, filter of an '
    'untyped argument with ill-typed parameters, unbound template parameter in a result) are counted as unspecified',
    'warnings are not judged',
]
MIN_JUDGED = {'quick': 5000, 'thorough': 100000}
NSH = 32


def shards(tier, seed):
    return [{'i': i} for i in range(NSH)]


def ladder(k):
    """recursion whose type needs k-1 refinement rounds: k accumulators, each collecting the previous one"""
    N = rg.N
    names = [f'a{j}' for j in range(1, k + 1)]
    decl = N('NT_TUPLE_DECL', None, [N('ID_LOCAL', n) for n in names])
    init = N('NT_TUPLE', None, [N('LIT_EMPTYSET') for _ in names])
    steps = [N('UNION', None, [N('ID_LOCAL', 'a1'), N('ID_GLOBAL', 'X1')])]
    for j in range(1, k):
        steps.append(N('UNION', None, [N('ID_LOCAL', names[j]), N('NT_ENUMERATION', None, [N('ID_LOCAL', names[j - 1])])]))
    return N('NT_RECURSIVE_SHORT', None, [decl, init, N('NT_TUPLE', None, steps)])


def ladder_cases():
    ctx = ty.Ctx()
    ctx.types = {'X1': ty.S(ty.E('X1')), 'S1': ty.S(ty.S(ty.E('X1')))}
    ctx.traits = {'X1': 'nominal'}
    ctx.vclass = {'X1': 'value', 'S1': 'value'}
    ops = [{'op': 'rs.ctx', 'ctx': 'c', 'spec': ctx.spec()}]
    items = []
    for k in range(2, 8):
        base = ladder(k)
        variants = [base, rg.N('SMALLPR', [k], [base])]
        t = rg.N('ID_GLOBAL', 'X1')
        for _ in range(k - 1):
            t = rg.N('BOOLEAN', None, [t])
        variants.append(rg.N('EQUAL', None, [rg.N('SMALLPR', [k], [ladder(k)]), t]))          # well-typed: B^k(X1)
        variants.append(rg.N('EQUAL', None, [rg.N('SMALLPR', [k], [ladder(k)]), rg.N('BOOLEAN', None, [t])]))   # ill-typed
        for v in variants:
            for syntax in ('MATH', 'ASCII'):
                text, _sp = rg.render(rg.map_locals(v, lambda x: x), syntax)
                ops.append({'op': 'rs.check', 'ctx': 'c', 'text': text, 'syntax': syntax})
                items.append({'tree': v, 'mut': f'ladder{k}', 'text': text, 'syntax': syntax})
    meta_ctx = {'types': ctx.types, 'funcs': {}, 'traits': ctx.traits, 'vclass': ctx.vclass, 'bodies': {}}
    return [core.case(ops, kind='ctx', ctx=meta_ctx, items=items)]


def refine_trees():
    """(label, tree): recursions whose variable starts with a wildcard type (empty-set based initial value) and is refined by
    the step; conditions / steps use structural operations that the wildcard accepts but only some refined types do. And
    function definitions whose argument domains bind their own variables while the body contains a recursion."""
    N = rg.N
    L = lambda n: N('ID_LOCAL', n)
    G = lambda n: N('ID_GLOBAL', n)
    E = lambda: N('LIT_EMPTYSET')
    a = lambda: L('a')
    eq = lambda x, y: N('EQUAL', None, [x, y])
    inits = {'empty': E, 'set-of-empty': lambda: N('NT_ENUMERATION', None, [E()])}
    steps = {'X1': lambda: N('UNION', None, [a(), G('X1')]), 'S1': lambda: N('UNION', None, [a(), G('S1')]), 'S2': lambda: N('UNION', None, [a(), G('S2')]),
             '{X1}': lambda: N('UNION', None, [a(), N('NT_ENUMERATION', None, [G('X1')])]), 'red': lambda: N('UNION', None, [N('REDUCE', None, [a()]), G('X1')]),
             'Pr1': lambda: N('UNION', None, [N('BIGPR', [1], [a()]), G('X1')])}
    conds = {'red': lambda: eq(N('REDUCE', None, [a()]), E()), 'Pr1': lambda: eq(N('BIGPR', [1], [a()]), E()), 'Pr2,1': lambda: eq(N('BIGPR', [2, 1], [a()]), E()),
             'pr1-debool': lambda: eq(N('SMALLPR', [1], [N('DEBOOL', None, [a()])]), N('SMALLPR', [1], [N('DEBOOL', None, [a()])])),
             'card': lambda: N('LESSER', None, [N('CARD', None, [a()]), N('LIT_INTEGER', 3)]),
             'forall-pr1': lambda: N('FORALL', None, [L('x'), a(), eq(N('SMALLPR', [1], [L('x')]), N('SMALLPR', [1], [L('x')]))]),
             'forall-card': lambda: N('FORALL', None, [L('x'), a(), N('GREATER', None, [N('CARD', None, [L('x')]), N('LIT_INTEGER', 0)])]),
             'forall-in': lambda: N('FORALL', None, [L('x'), a(), N('IN', None, [L('x'), G('X1')])]),
             'filter': lambda: eq(N('FILTER', [1], [G('X1'), a()]), a()), 'bool': lambda: N('NOTEQUAL', None, [N('BOOL', None, [a()]), E()]),
             'red-card': lambda: N('LESSER', None, [N('CARD', None, [N('REDUCE', None, [a()])]), N('LIT_INTEGER', 3)])}
    out = []
    for iname, init in inits.items():
        for sname, step in steps.items():
            out.append((f'refine-short:{iname}:{sname}', N('NT_RECURSIVE_SHORT', None, [a(), init(), step()])))
            for cname, cond in conds.items():
                out.append((f'refine-full:{iname}:{sname}:{cname}', N('NT_RECURSIVE_FULL', None, [a(), init(), cond(), step()])))
    # type deductions that need k rounds (a chain of k empty-set components fed from the right) or never reach a fixed point
    # (every round wraps the type once more; a counter bounds the evaluation): accepted only with a CONFIRMED principal type
    for k in (2, 3, 4, 5, 6, 7, 8):
        names = [L('v%d' % j) for j in range(k)]
        decl = N('NT_TUPLE_DECL', None, names)
        init = N('NT_TUPLE', None, [E() for _ in range(k)])
        step = N('NT_TUPLE', None, [L('v%d' % j) for j in range(1, k)] + [G('X1')])
        out.append((f'refine-chain:{k}', N('NT_RECURSIVE_SHORT', None, [decl, init, step])))
    wrap = lambda body: N('NT_RECURSIVE_FULL', None, [N('NT_TUPLE_DECL', None, [a(), L('k')]), N('NT_TUPLE', None, [E(), N('LIT_INTEGER', 0)]),
                                                      N('LESSER', None, [L('k'), N('LIT_INTEGER', 10)]), N('NT_TUPLE', None, [body, N('PLUS', None, [L('k'), N('LIT_INTEGER', 1)])])])
    out.append(('refine-unstable:enum', wrap(N('NT_ENUMERATION', None, [a()]))))
    out.append(('refine-unstable:bool', wrap(N('BOOLEAN', None, [a()]))))
    out.append(('refine-unstable:pair', wrap(N('NT_ENUMERATION', None, [N('NT_TUPLE', None, [a(), a()])]))))
    out.append(('refine-unstable:union-enum', wrap(N('UNION', None, [a(), N('NT_ENUMERATION', None, [a()])]))))
    # function definitions: argument domain with its own binder + recursion in the body (reported argument list)
    dom1 = lambda: N('NT_DECLARATIVE_EXPR', None, [L('c'), G('X1'), eq(L('c'), L('p'))])
    dom2 = lambda: N('NT_DECLARATIVE_EXPR', None, [L('c'), N('BOOLEAN', None, [G('X1')]), N('IN', None, [L('p'), L('c')])])
    rec1 = lambda: N('NT_RECURSIVE_SHORT', None, [L('x'), N('NT_ENUMERATION', None, [L('p')]), N('UNION', None, [L('x'), N('NT_ENUMERATION', None, [L('q')])])])
    rec2 = lambda: N('NT_RECURSIVE_SHORT', None, [L('x'), L('q'), N('UNION', None, [L('x'), N('NT_ENUMERATION', None, [L('p')])])])
    rec3 = lambda: N('NT_RECURSIVE_FULL', None, [L('x'), E(), N('LESSER', None, [N('CARD', None, [L('x')]), N('LIT_INTEGER', 2)]), N('UNION', None, [L('x'), N('NT_ENUMERATION', None, [L('q')])])])
    for dname, dom, bodies in (('D-elem', dom1, [('rec1', rec1), ('rec3', rec3)]), ('D-set', dom2, [('rec2', rec2)])):
        for bname, body in bodies:
            for order in ('pq', 'q-first-use'):
                args = [N('NT_ARG_DECL', None, [L('p'), G('X1')]), N('NT_ARG_DECL', None, [L('q'), dom()])]
                if order != 'pq':
                    args.append(N('NT_ARG_DECL', None, [L('r'), N('NT_DECLARATIVE_EXPR', None, [L('d'), G('X1'), eq(L('d'), L('d'))])]))
                fd = N('NT_FUNC_DEFINITION', None, [N('NT_ARGUMENTS', None, args), body()])
                out.append((f'fundef:{dname}:{bname}:{order}', fd))
                out.append((f'fundef-named:{dname}:{bname}:{order}', N('PUNC_DEFINE', None, [N('ID_FUNCTION', 'F9'), rg.map_locals(fd, lambda x: x)])))
    # a recursion inside an ARGUMENT DOMAIN, after an argument whose domain binds one / two / three variables of its own
    recdom = lambda: N('NT_RECURSIVE_SHORT', None, [L('s'), G('X1'), L('s')])
    binders = {
        'one': lambda: N('NT_DECLARATIVE_EXPR', None, [L('c'), G('X1'), eq(L('c'), L('c'))]),
        'two': lambda: N('NT_DECLARATIVE_EXPR', None, [L('c'), G('X1'), N('FORALL', None, [L('y'), G('X1'), eq(L('c'), L('y'))])]),
        'three': lambda: N('NT_DECLARATIVE_EXPR', None, [L('c'), G('X1'), N('FORALL', None, [L('y'), G('X1'), N('FORALL', None, [L('z'), G('X1'),
                                                         N('AND', None, [eq(L('c'), L('y')), eq(L('y'), L('z'))])])])]),
    }
    for bname, dom in binders.items():
        for body in ('p', 'q', 'pq'):
            args = [N('NT_ARG_DECL', None, [L('p'), dom()]), N('NT_ARG_DECL', None, [L('q'), recdom()])]
            b = L('p') if body == 'p' else (L('q') if body == 'q' else N('UNION', None, [L('p'), N('NT_ENUMERATION', None, [L('q')])]))
            out.append((f'fundef-recdomain:{bname}:{body}', N('NT_FUNC_DEFINITION', None, [N('NT_ARGUMENTS', None, args), b])))
        # an argument that reuses the name of a variable bound (and already out of scope) in an earlier argument's domain
        for second in ('plain', 'rec'):
            args = [N('NT_ARG_DECL', None, [L('p'), dom()]), N('NT_ARG_DECL', None, [L('c'), G('X1') if second == 'plain' else recdom()])]
            for body in ('p', 'c'):
                out.append((f'fundef-argreuse:{bname}:{second}:{body}', N('NT_FUNC_DEFINITION', None, [N('NT_ARGUMENTS', None, args), L(body)])))
    return out


def vclass_trees():
    """constructors x operand value classes (value / property / invalid) in every operand position"""
    N = rg.N
    G = lambda n: N('ID_GLOBAL', n)
    ops = {'V': [lambda: G('X1'), lambda: G('D1')],
           'P': [lambda: N('BOOLEAN', None, [G('X1')]), lambda: G('D5')],
           'I': [lambda: N('NT_ENUMERATION', None, [N('BOOLEAN', None, [G('X1')])]), lambda: G('D6'), lambda: N('BOOL', None, [G('D5')])]}
    out = []
    import itertools
    for arity in (2, 3):
        for classes in itertools.product('VPI', repeat=arity):
            if arity == 3 and classes.count('I') != 1:
                continue
            for pick in range(2):
                kids = [ops[c][pick % len(ops[c])]() for c in classes]
                tag = ''.join(classes)
                out.append((f'vclass:DECART:{tag}', N('DECART', None, kids)))
                out.append((f'vclass:TUPLE:{tag}', N('NT_TUPLE', None, [k if True else k for k in kids])))
                if arity == 2:
                    for o in ('UNION', 'INTERSECTION', 'SET_MINUS', 'SYMMINUS'):
                        out.append((f'vclass:{o}:{tag}', N(o, None, [ops[classes[0]][pick % len(ops[classes[0]])]() if classes[0] != 'I' else N('BOOL', None, [G('D5')]),
                                                                    ops[classes[1]][pick % len(ops[classes[1]])]() if classes[1] != 'I' else N('BOOL', None, [G('D5')])])))
                    for o in ('IN', 'SUBSET_OR_EQ', 'SUBSET', 'EQUAL'):
                        left = kids[0] if o != 'IN' else N('DEBOOL', None, [N('NT_ENUMERATION', None, [rg.map_locals(kids[0], lambda x: x)])])
                        out.append((f'vclass:{o}:{tag}', N(o, None, [left, kids[1]])))
    return out


def fixed_functions(ctx):
    """templated functions sharing a radical between arguments, and functions over sets of integers of every value class"""
    N = rg.N
    L = lambda n: N('ID_LOCAL', n)
    arg = lambda n, t: N('NT_ARG_DECL', None, [L(n), t])
    R1 = lambda: N('ID_RADICAL', 'R1')
    BZ = lambda: N('BOOLEAN', None, [N('LIT_INTSET')])
    fd = lambda args, body: N('NT_FUNC_DEFINITION', None, [N('NT_ARGUMENTS', None, args), body])
    defs = {
        'F1': fd([arg('a', N('BOOLEAN', None, [R1()])), arg('b', N('BOOLEAN', None, [R1()]))], N('UNION', None, [L('a'), L('b')])),
        'F2': fd([arg('a', N('BOOLEAN', None, [R1()])), arg('b', R1())], N('UNION', None, [L('a'), N('NT_ENUMERATION', None, [L('b')])])),
        'F3': fd([arg('a', R1()), arg('b', N('BOOLEAN', None, [R1()]))], N('UNION', None, [N('NT_ENUMERATION', None, [L('a')]), L('b')])),
        'F4': fd([arg('a', BZ())], N('DECART', None, [N('LIT_INTSET'), N('NT_ENUMERATION', None, [L('a')])])),      # property; needs a VALUE argument
        'F5': fd([arg('a', BZ())], N('NT_ENUMERATION', None, [L('a')])),                                            # value; needs a value argument
        'F6': fd([arg('a', BZ())], N('DECART', None, [N('LIT_INTSET'), L('a')])),                                   # property; tolerates a property argument
    }
    for name, tree in defs.items():
        ty.add_function(ctx, name, tree)
    ty.add_function(ctx, 'F7', fd([arg('a', BZ())], N('NT_FUNC_CALL', None, [N('ID_FUNCTION', 'F4'), L('a')])))      # forwards to F4


def call_trees():
    N = rg.N
    G = lambda n: N('ID_GLOBAL', n)
    E = lambda: N('LIT_EMPTYSET')
    call = lambda f, *a: N('NT_FUNC_CALL', None, [N('ID_FUNCTION', f)] + list(a))
    sets = {'empty': E, 'set-of-empty': lambda: N('NT_ENUMERATION', None, [E()]), 'X1': lambda: G('X1'), 'S1': lambda: G('S1'), 'S2': lambda: G('S2')}
    elems = {'elem': lambda: N('DEBOOL', None, [G('X1')]), 'pair': lambda: N('DEBOOL', None, [G('S1')]), 'empty': E, 'set': lambda: G('X1')}
    out = []
    for an, a in sets.items():
        for bn, b in sets.items():
            c = call('F1', a(), b())
            out.append((f'call:F1:{an}:{bn}', c))
            out.append((f'call:F1-card-debool:{an}:{bn}', N('GREATER', None, [N('CARD', None, [N('DEBOOL', None, [call('F1', a(), b())])]), N('LIT_INTEGER', 0)])))
            out.append((f'call:F1-Pr1:{an}:{bn}', N('BIGPR', [1], [call('F1', a(), b())])))
        for en, e in elems.items():
            out.append((f'call:F2:{an}:{en}', call('F2', a(), e())))
            out.append((f'call:F3:{en}:{an}', call('F3', e(), a())))
            out.append((f'call:F2-red:{an}:{en}', N('REDUCE', None, [call('F2', a(), e())])))
    # the same templated function instantiated twice, differently, inside ONE expression
    L = lambda n: N('ID_LOCAL', n)
    for an, a in sets.items():
        for bn, b in sets.items():
            if an == bn:
                continue
            out.append((f'call2:tuple:{an}:{bn}', N('NT_TUPLE', None, [call('F1', a(), a()), call('F1', b(), b())])))
            out.append((f'call2:cards:{an}:{bn}', N('EQUAL', None, [N('CARD', None, [call('F1', a(), a())]), N('CARD', None, [call('F1', b(), b())])])))
            out.append((f'call2:decart:{an}:{bn}', N('DECART', None, [call('F2', a(), N('DEBOOL', None, [a()])), call('F1', b(), b())])))
            out.append((f'call2:nested:{an}:{bn}', call('F3', call('F1', a(), a()), N('NT_ENUMERATION', None, [call('F1', a(), a())]))))
    out.append(('call2:quant:S1:X1', N('AND', None, [
        N('FORALL', None, [L('x'), call('F1', G('S1'), G('S1')), N('IN', None, [N('SMALLPR', [1], [L('x')]), G('X1')])]),
        N('FORALL', None, [L('y'), call('F1', G('X1'), G('X1')), N('IN', None, [L('y'), G('X1')])])])))
    out.append(('call2:quant:X1:S1', N('AND', None, [
        N('FORALL', None, [L('y'), call('F1', G('X1'), G('X1')), N('IN', None, [L('y'), G('X1')])]),
        N('FORALL', None, [L('x'), call('F1', G('S1'), G('S1')), N('IN', None, [N('SMALLPR', [1], [L('x')]), G('X1')])])])))
    # a filter whose argument is untyped/empty still has to check its parameters
    bad_params = {'arity': lambda: call('F1', G('X1')), 'union': lambda: N('UNION', None, [G('X1'), G('S1')]), 'undeclared': lambda: L('w'),
                  'good': lambda: G('X1'), 'call': lambda: call('F1', G('X1'), G('X1'))}
    empties = {'empty': E, 'call-empty': lambda: call('F1', E(), E()), 'pr-call-empty': lambda: N('BIGPR', [1, 3], [call('F1', E(), E())])}
    for pn, bp in bad_params.items():
        for en, e in empties.items():
            out.append((f'filter-untyped:{pn}:{en}:1', N('FILTER', [1], [bp(), e()])))
            out.append((f'filter-untyped:{pn}:{en}:2a', N('FILTER', [1, 2], [bp(), G('X1'), e()])))
            out.append((f'filter-untyped:{pn}:{en}:2b', N('FILTER', [1, 2], [G('X1'), bp(), e()])))
            out.append((f'filter-untyped:{pn}:{en}:c', N('FILTER', [1, 2], [bp(), e()])))
    ints = {'Z': lambda: N('LIT_INTSET'), 'enum': lambda: N('NT_ENUMERATION', None, [N('LIT_INTEGER', 1), N('LIT_INTEGER', 2)]), 'empty': E,
            'boolZ': lambda: N('BOOLEAN', None, [N('LIT_INTSET')])}
    for f in ('F4', 'F5', 'F6', 'F7'):
        for an, a in ints.items():
            out.append((f'vcall:{f}:{an}', call(f, a())))
            out.append((f'vcall-card:{f}:{an}', N('GREATER', None, [N('CARD', None, [call(f, a())]), N('LIT_INTEGER', 0)])))
            out.append((f'vcall-define:{f}:{an}', N('PUNC_DEFINE', None, [G('D9'), call(f, a())])))
    return out


def refine_cases():
    ctx = ty.Ctx()
    ctx.types = {'X1': ty.S(ty.E('X1')), 'S1': ty.S(ty.T(ty.E('X1'), ty.E('X1'))), 'S2': ty.S(ty.S(ty.E('X1'))),
                 'D1': ty.S(ty.E('X1')), 'D5': ty.S(ty.E('X1')), 'D6': ty.S(ty.E('X1'))}
    ctx.traits = {'X1': 'nominal'}
    ctx.vclass = {'X1': 'value', 'S1': 'value', 'S2': 'value', 'D1': 'value', 'D5': 'props'}     # D6: typed, but no value class
    fixed_functions(ctx)
    ops = [{'op': 'rs.ctx', 'ctx': 'c', 'spec': ctx.spec()}]
    items = []
    for label, tree in refine_trees() + vclass_trees() + call_trees():
        for syntax in ('MATH', 'ASCII'):
            src = rg.map_locals(tree, (lambda x: x) if syntax == 'MATH' else rg.translit)
            text, _sp = rg.render(src, syntax)
            ops.append({'op': 'rs.check', 'ctx': 'c', 'text': text, 'syntax': syntax})
            items.append({'tree': src, 'mut': label.split(':')[0], 'text': text, 'syntax': syntax})
    meta_ctx = {'types': ctx.types, 'funcs': ctx.funcs, 'traits': ctx.traits, 'vclass': ctx.vclass, 'bodies': ctx.bodies}
    return [core.case(ops, kind='ctx', ctx=meta_ctx, items=items)]


def build_cases(rnd, tier, first=False):
    cases = (ladder_cases() + refine_cases()) if first else []
    nctx = 40 if tier == 'quick' else 400
    for _ in range(nctx):
        g = ty.TypedGen(rnd)
        ctx = g.make_context()
        ops = [{'op': 'rs.ctx', 'ctx': 'c', 'spec': ctx.spec()}]
        items = []
        for _ in range(28):
            depth = rnd.choice([1, 2, 2, 3, 3, 4])
            tree = g.expression(depth)
            mut = 'none'
            r = rnd.random()
            if r < 0.4:
                tree, mut = ty.mutate(tree, g, rnd)
                if rnd.random() < 0.2:
                    tree, _m2 = ty.mutate(tree, g, rnd)
            elif r < 0.5:
                # global declaration / function definition wrappers
                w = rnd.random()
                if w < 0.4:
                    tree = rg.N('PUNC_DEFINE', None, [rg.N('ID_GLOBAL', 'D9'), tree])
                elif w < 0.6 and not rg.is_logic(tree):
                    tree = rg.N('PUNC_STRUCT', None, [rg.N('ID_GLOBAL', 'S9'), tree])
                else:
                    args = []
                    env = []
                    for an in rnd.sample(['p', 'q', 'r'], rnd.choice([1, 2])):
                        at = g.random_type([ty.E(b) for b in ctx.bases] + [ty.Z], rnd.choice([0, 1, 2]), top_set=rnd.random() < 0.5)
                        te = g.type_expr(at)
                        args.append(rg.N('NT_ARG_DECL', None, [rg.N('ID_LOCAL', an), te]))
                        env.append((an, at))
                    body = g.logic(env, 2) if rnd.random() < 0.5 else (g.expr(rnd.choice([t for _, t in env]), env, 2) or g.logic(env, 1))
                    tree = rg.N('NT_FUNC_DEFINITION', None, [rg.N('NT_ARGUMENTS', None, args), body])
                    if rnd.random() < 0.5:
                        tree = rg.N('PUNC_DEFINE', None, [rg.N('ID_FUNCTION', 'F9'), tree])
            if rg.count_nodes(tree) > 120:
                continue
            syntax = 'MATH' if (rnd.random() < 0.7 or rg.has_greek(tree)) else 'ASCII'
            src = rg.map_locals(tree, (lambda x: x) if syntax == 'MATH' else rg.translit)
            text, _spans = rg.render(src, syntax, rnd, ws=0.1, parens=0.1, short_decl=0.3)
            ops.append({'op': 'rs.check', 'ctx': 'c', 'text': text, 'syntax': syntax})
            items.append({'tree': src, 'mut': mut, 'text': text, 'syntax': syntax})
        meta_ctx = {'types': {k: v for k, v in ctx.types.items()}, 'funcs': ctx.funcs, 'traits': ctx.traits, 'vclass': ctx.vclass,
                    'bodies': ctx.bodies}
        cases.append(core.case(ops, kind='ctx', ctx=meta_ctx, items=items))
    return cases


def to_type(j):
    if j == 'LOGIC':
        return 'LOGIC'
    if j[0] == 'e':
        return ('e', j[1])
    if j[0] == 's':
        return ('s', to_type(j[1]))
    return ('t', tuple(to_type(c) for c in j[1]))


def load_ctx(m):
    return {'types': {k: to_type(v) for k, v in m['types'].items()},
            'funcs': {k: [(a, to_type(t)) for a, t in v] for k, v in m['funcs'].items()},
            'traits': m['traits'], 'vclass': m['vclass'], 'bodies': m['bodies']}


def ulen(text, syntax):
    return len(text) if syntax == 'MATH' else len(text.encode('utf-8'))


def judge(res, cs, cr):
    if not core.std_death_checks(res, PROP, cs, cr):
        return
    ctx = load_ctx(cs['meta']['ctx'])
    for item, op, ev in zip(cs['meta']['items'], cs['ops'][1:], cr.events[1:]):
        tree = item['tree']
        text = item['text']
        ref = rt.check_expression(tree, ctx)
        res.cover('mutation:' + item['mut'])
        res.cover('ref:' + ref['status'])
        for o in rg.ops_in(tree):
            res.cover(o)
        bad = None
        if not ev['parsed']:
            res.count('unparsed')
            continue
        crit = [e for e in ev['errors'] if e['crit']]
        for e in crit:
            if e['pos'] < 0 or e['pos'] > ulen(text, item['syntax']):
                bad = ('error-position', f"critical error {e['eid']:#x} at position {e['pos']} outside the input (length {ulen(text, item['syntax'])})")
        if ref['status'] == 'unspec':
            res.count('unspecified')
        elif ref['status'] == 'ok':
            if not ev['ok']:
                bad = ('rejects-welltyped', f"rules derive {rt.tstr(ref['type'])} but the checker rejects: {[hex(e['eid']) for e in crit]}")
            else:
                if ev['type'] != rt.tstr(ref['type']):
                    bad = ('wrong-type', f"checker reports {ev['type']}, rules derive {rt.tstr(ref['type'])}")
                exp_args = [[a, rt.tstr(t)] for a, t in ref['args']]
                if ev['args'] != exp_args:
                    bad = ('wrong-args', f"declared arguments {ev['args']} expected {exp_args}")
                # value class
                try:
                    vc = rt.value_class(tree, ctx)
                except rt.ClassErr:
                    vc = None
                if vc is None:
                    if ev['vok']:
                        bad = bad or ('valueclass-accepts', f"value audit accepts ({ev['vclass']}) an expression the rules reject")
                elif not ev['vok'] or ev['vclass'] != vc:
                    bad = bad or ('valueclass', f"value class {ev['vclass']} (ok={ev['vok']}) expected {vc}")
                res.count('judged', 3)
        else:
            if ev['ok']:
                bad = ('accepts-illtyped', f"rules reject ({ref['why']}) but the checker accepts with type {ev['type']}")
            elif not crit:
                bad = ('reject-without-error', f"rejected ({ref['why']}) without any critical error")
        if bad:
            res.violation(f'{PROP}/types/{bad[0]}', f"{item['syntax']} {text!r} [{item['mut']}]: {bad[1]}; context types "
                          f"{ {k: rt.tstr(v) for k, v in ctx['types'].items()} } funcs { {k: [(a, rt.tstr(t)) for a, t in v] for k, v in ctx['funcs'].items()} }",
                          {'ops': [cs['ops'][0], op], 'meta': {'kind': 'ctx', 'ctx': cs['meta']['ctx'], 'items': [item]}})
        res.judged(repr(sorted(cs['meta']['ctx']['types'].items())) + text, nontrivial=rg.count_nodes(tree) >= 5)
        res.count('checks')
        if ref['status'] == 'ok' and rg.count_nodes(tree) >= 8:
            res.sample({'text': text, 'type': rt.tstr(ref['type']), 'context': {k: rt.tstr(v) for k, v in list(ctx['types'].items())[:6]}}, limit=1)


def run_shard(desc, env):
    res = core.ShardResult()
    rnd = env.rng('c03', desc['i'])
    for cs, cr in env.execute(build_cases(rnd, env.tier, first=desc['i'] == 0), chunk=20):
        judge(res, cs, cr)
    return res


def replay(cs, env):
    res = core.ShardResult()
    for c, cr in env.execute([cs]):
        judge(res, c, cr)
    return res


RULE = RULE + ' Systematic families: type ladders, recursion refinement (initial value x step x condition), deduction chains of 2-8 rounds and recursions without a principal type, value-class matrix, templated / property calls incl. one template instantiated twice in one expression, filters over untyped arguments with ill-typed parameters, function definitions with binders / recursions in argument domains and arguments re-using a bound name (declared argument list).'
