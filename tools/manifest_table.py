# Table of claimed checks (exec'd by mkmanifest.py). Properties not yet claimed are listed as not applicable
# with the reason "not built yet" until their check exists.

chk('C20',
    'Runtime monitoring with a reference model: every function of Strings.hpp is executed on the sanitizer build for '
    'all strings up to 4 (quick) / 6 (thorough) code points over an alphabet with 1-4 byte characters, all in/out-of-'
    'bounds code-point ranges and all range pairs of a window, and each return value is compared with Python '
    'str/bytes semantics and the end-point definitions of the interval relations. Exhaustive on those finite '
    'sub-spaces, sampled beyond; held-on-what-was-observed, not a proof.',
    'Trusted: the Python reference (str/bytes, end-point definitions), the driver. Overlaps with an empty operand is '
    'not judged.',
    'sanitizer build + reference-model monitor over exhaustive small inputs', 'DESIGN.md 4 C20')

chk('C14',
    'Runtime monitoring of mutation histories: after every mutation of a CGraph/UpdatableGraph every public query is '
    'recorded over the whole uid universe and compared with a set-of-edges model (BFS closures, Tarjan SCCs). All '
    '3-vertex digraphs in all edge orders and all short histories are enumerated; long histories are random.',
    'Trusted: the Python graph model. IsReachableFrom(x,x) for x on a longer cycle is not judged.',
    'sanitizer build + executable-model monitor over operation histories', 'DESIGN.md 4 C14')

chk('C15',
    'Runtime monitoring with an executable model: pools of values of one typification are built through every Factory '
    'route and representation (enumerated, lazy power set, lazy product, twins), and every comparison, set operation, '
    'iteration and copy/AddElement sequence is compared with a Python frozenset/tuple/int model; order axioms are '
    'checked on all pairs/triples of each pool. All values of five small types are enumerated; the rest is random.',
    'Trusted: the Python value model. AddElement on lazy sets is not judged for its effect on that value.',
    'sanitizer build + executable-model monitor (finite-set algebra) over generated value pools', 'DESIGN.md 4 C15')

chk('C16',
    'Runtime monitoring: FromSData/Unpack round trips of (typification, value) pairs (systematic small types, random '
    'types to depth 5) are compared with the Python value model; every packed table is then mutated, decoded against '
    'its own and foreign typifications, and random ragged tables are decoded, with the sanitizers, an exception trap '
    'and a structural conformance checker (all elements) as oracles.',
    'Trusted: the Python value model and conformance check.',
    'sanitizer build + round-trip/conformance monitor over generated and mutated tables', 'DESIGN.md 4 C16')

chk('C17',
    'Runtime monitoring of reference sessions: generated UTF-8 texts with valid, malformed, adjacent and nested '
    'markers are extracted, resolved against generated term contexts (with an inflection-tagging processor so that the '
    'chosen form and master are observable), written back, edited by Insert/EraseIn, translated and re-resolved after '
    'term edits; a Python reference scanner/grammar/resolution model and the range-alignment invariant judge every step.',
    'Trusted: vf/refmodel.py. Texts on which two admissible scanning policies disagree are only checked for faults.',
    'sanitizer build + reference-model and invariant monitors over operation histories', 'DESIGN.md 4 C17')

chk('C05',
    'Runtime monitoring with a differential oracle: every generated input (bracket-decision matrix, chains, all token '
    'kinds, random trees) is parsed, printed by the real generator in MATH and ASCII, re-parsed by the real parser, and '
    'the two tree dumps are compared in Python (with an independent copy of the Greek transliteration table) and by the '
    'library operator==; ConvertTo chains must preserve the tree and be stable.',
    'Trusted: the tree comparison and transliteration table in vf/p05.py / vf/rsgen.py. Inputs are produced by the '
    'grammar-aware renderer, so coverage of "all parseable expressions" is what that generator reaches.',
    'sanitizer build + print/parse round-trip monitor (differential) over generated expressions', 'DESIGN.md 4 C05')

chk('C06',
    'Runtime monitoring with a reference model: abstract trees are rendered by an independent printer that encodes the '
    'documented precedence/associativity/bracket rules and records the span of every node; the real parser must '
    'return exactly that tree with exactly those ranges, and FindMinimalNode must agree with the reference on random '
    'cursor ranges. The constructor-pair matrix and associativity chains are enumerated, deep trees are random.',
    'Trusted: the renderer in vf/rsgen.py as the statement of the grammar. Multiply-parenthesised nodes may report '
    'either the innermost or the outermost pair.',
    'sanitizer build + reference-model monitor (grammar-aware renderer with spans) over generated expressions', 'DESIGN.md 4 C06')

chk('C01',
    'Runtime monitoring with a reference evaluator: type-directed expressions over generated contexts and '
    'interpretations are evaluated by the real Interpreter in several metamorphic variants (MATH/ASCII, redundant '
    'parentheses, debool({e}), declarative and imperative copies of set values) and every result is compared with a '
    'strict Python evaluator (frozenset/tuple/int/bool semantics); documented runtime errors are handled three-valued.',
    'Trusted: vf/rseval.py (semantics) and vf/rstypes.py (what is well-typed). Cases where the strict reference meets a '
    'documented error and no reference value exists are unspecified; int32 overflow is unspecified.',
    'sanitizer build + reference-model monitor (executable set-theoretic evaluator) over generated programs and data', 'DESIGN.md 4 C01')

chk('C02',
    'Runtime monitoring with sanitizers as the primary oracle: every expression the real checker accepts (well-typed '
    'ones, near-miss mutants, boundary integer and lazy-set stress inputs) is evaluated on the ASan+UBSan+'
    '_GLIBCXX_ASSERTIONS build under type-compatible data; deaths, escaped exceptions, the unknown evaluation error and '
    'value/type structure mismatches (Python check of every element + library CheckCompatible) are violations.',
    'Trusted: the sanitizers (a clean run is not memory safety), the Python conformance check. Function definitions and '
    'bare declarations are exercised for safety only.',
    'ASan+UBSan+libstdc++ assertions + exception trap + value/type conformance monitor over accepted programs', 'DESIGN.md 4 C02')

chk('C03',
    'Runtime monitoring with a reference model: expressions, near-miss mutants, definitions and a recursion-depth '
    'ladder over generated type contexts are checked by the real Auditor; verdict, typification, declared arguments, '
    'value class and error positions are compared with an independent implementation of the typing rules.',
    'Trusted: vf/rstypes.py as the statement of the rules (DESIGN.md appendix A); a few constructs whose result the '
    'rules do not determine are counted as unspecified.',
    'sanitizer build + reference-model monitor (independent typing rules) over generated programs and contexts', 'DESIGN.md 4 C03')

chk('C04',
    'Runtime monitoring with sanitizers and a reporting-discipline monitor: mutated valid expressions, a fixed hostile '
    'list, raw/invalid-UTF-8 bytes, reference texts and pristine/mutated JSON documents are pushed through every public '
    'analysis entry point (Parser, Auditor, Interpreter, ConvertTo, api::ParseExpression, RSFormJA and the real '
    'pyconcept.cpp functions, Reference/RefsManager/ManagedText), half of them through long-lived analysers; deaths, '
    'escaped exceptions (only the JSON exception on a non-pristine document is allowed), hangs of non-evaluating calls, '
    '"failed <=> critical error" and error positions inside the input are judged per call.',
    'Trusted: sanitizers, the driver. Inputs are bounded (4 KiB, nesting 200/1500); slow evaluations bounded by the '
    'documented iteration limits are inconclusive, not hangs.',
    'ASan+UBSan+libstdc++ assertions + exception trap + watchdog + error-report monitor over hostile inputs', 'DESIGN.md 4 C04')

chk('C18',
    'Runtime monitoring with a differential oracle: sequences of inputs (all ordered pairs of 13 input kinds enumerated, '
    'longer sequences random, incl. generated expressions over random contexts) go through one long-lived Parser, Auditor '
    'and Interpreter and, call by call, through freshly constructed ones; verdicts and errors must always be identical, '
    'and on success every reported field (type, args, value class, tree with positions, generated text, value, iteration '
    'count). Generator outputs are also compared with a driver process without history (static state).',
    'Trusted: the equality comparison of recorded events. Memory faults during a sequence abandon it (C02/C04 judge them).',
    'sanitizer build + differential monitor (reused vs fresh analyser, process with vs without history)', 'DESIGN.md 4 C18')

chk('C07',
    'Runtime monitoring of edit histories with a differential oracle: after every operation of a seeded RSForm history the '
    'live schema is compared, constituent by constituent, with a schema freshly loaded from its minimal JSON (status, '
    'typification, arguments, value class, syntax tree, dependency edges, and resolved texts when term references are '
    'acyclic). Deterministic identifiers through the CCL_VERIF hook make histories replayable.',
    'Trusted: the from-scratch analysis of the real code is the reference; AST strings ignore positions.',
    'sanitizer build + differential monitor (incremental vs from-scratch) over operation histories', 'DESIGN.md 4 C07')

chk('C09',
    'Runtime monitoring with structural-invariant monitors evaluated after every public call of collision-heavy RSForm '
    'histories: unique uids, unique well-formed aliases matching their kind, list = ordered permutation (base < constant < '
    'structure < derived), agreement of all views, erased constituents gone everywhere, refused calls leave the snapshot '
    'unchanged, tracked constituents refuse Erase/SetExpressionFor.',
    'Trusted: the snapshot read through the public API. SetExpressionFor returning false may store a text with an '
    'identical syntax tree (documented minor change).',
    'sanitizer build + invariant monitor at quiescent points of operation histories', 'DESIGN.md 4 C09')

chk('C10',
    'Runtime monitoring with a round-trip oracle: RSForm and RSModel objects reached by seeded histories are saved, loaded '
    'and saved again by the real JSON code; documents must be equal as JSON values (incl. embedded parse blocks) and the '
    'snapshots of the original and of the loaded object must agree on all listed content (for models also interpretation '
    'data and calculated flags).',
    'Trusted: JSON value comparison. Resolved texts of terms on a reference cycle are not compared. Two recorded findings '
    '(known_findings.json).',
    'sanitizer build + save/load round-trip monitor over histories', 'DESIGN.md 4 C10')

chk('C11',
    'Runtime monitoring of RSModel histories with a differential oracle: after every operation the live model is compared '
    'with a reconstruction from the current base data and definitions followed by RecalculateAll; every value reported as '
    'calculated must equal the reconstructed value and structure data must be valid for the current base interpretation.',
    'Trusted: the reconstruction (real code from scratch) and the canonical value comparison in Python.',
    'sanitizer build + differential monitor (stored value vs full recalculation) over operation histories', 'DESIGN.md 4 C11')

chk('C08',
    'Runtime monitoring of identifier translation at three observation points: TranslateRS / SubstituteGlobals on token '
    'soups against a reference model of the lexical grammar (longest match) with simultaneous whole-token substitution; '
    'ManagedText::TranslateRaw against the reference scanner of text references; and, in editing histories, every '
    'successful SetAliasFor(substitute) / ResetAliases compared before-vs-after under the alias map (definitions, '
    'conventions, raw texts exactly; dependency edges, status, typification, syntax tree up to the substitution).',
    'Trusted: the Python reading of the lexical grammar and of the reference syntax.',
    'sanitizer build + reference-model monitors (lexical-grammar model, reference scanner) and before/after rename monitor over histories', 'DESIGN.md 4 C08')

chk('C12',
    'Runtime monitoring of BinarySynthes, MergeWith, Equate, IsEquatable and DeleteDuplicates on pairs of schemas grown from '
    'a common shape: result invariants (C09 monitor), translations total and onto existing constituents, equated pairs '
    'identified, every result constituent is the image of a pre-image under the alias map induced by the translations '
    '(reference lexical model / reference translation), correctness and typifications preserved for correct operands and '
    'like-with-like tables, verdict == result, refusal and operands leave no trace.',
    'Trusted: the Python reading of the lexical grammar and reference syntax; which tables must be accepted is taken from the code.',
    'sanitizer build + translation-consistency monitor (image of every constituent under the returned maps) over synthesis / merge / equate results', 'DESIGN.md 4 C12')

chk('C13',
    'Runtime monitoring of OpExtractBasis / OpMaxPart on schemas reached by editing histories (forward references, moved '
    'constituents, incorrect members) against a Python reference model (closure / fixpoint over the reported edges, '
    'positional alias map, whole-identifier substitution): exact member set, order, definitions, dependency edges, status, '
    'typification and value class of every copied constituent; source unchanged.',
    'Trusted: the dependency edges of the source as reported by the schema (C07 checks them) and the identifier regex.',
    'sanitizer build + reference-model monitor (closure/fixpoint + renaming) over extraction results', 'DESIGN.md 4 C13')

chk('C19',
    'Runtime monitoring of OSSchema histories (insert / erase / connect / edit operands and results with and without '
    'saving / open / close / InitFor / Execute / ExecuteAll / save + shuffled reload) against an in-memory source manager '
    'that records every change announcement: a structural monitor after every call (cells, handles, two distinct existing '
    'parents, acyclicity, leaf-only erase, views agree, reload preserves the schema), result == fresh BinarySynthes of the '
    'parents right after a successful Execute with user additions carried over under the old->new alias map, and '
    '"done" implies the parents announced no formal change since the result was built.',
    'Trusted: the harness source manager (result documents can be made read-only as a failure injection; a build of a result is recognised '
    'by a write of its document) and the reference synthesis (real BinarySynthes, checked by C12).',
    'sanitizer build + structural-invariant monitor, differential oracle (stored result vs fresh synthesis) and announcement-log freshness monitor over OSS histories', 'DESIGN.md 4 C19')

for _p in ['C01', 'C02', 'C03', 'C04', 'C05', 'C06', 'C07', 'C08', 'C09', 'C10', 'C11', 'C12', 'C13', 'C15', 'C16',
           'C17', 'C18', 'C19']:
    if _p not in CHECKS:
        NOT_APPLICABLE[_p] = 'check not built yet (work in progress); runtime monitoring is planned per DESIGN.md section 4'
