"""Python model of RSLang structured data: int / tuple / frozenset, with typed random generation.

Types: ('e', base) element of a base set; ('t', (T1..Tn)) tuple n>=2; ('s', T) set.
"""
import itertools

E = ('e', 'X1')


def t_set(t):
    return ('s', t)


def t_tuple(*ts):
    return ('t', tuple(ts))


def type_spec(t):
    """driver type spec"""
    if t[0] == 'e':
        return {'b': t[1]}
    if t[0] == 's':
        return {'B': type_spec(t[1])}
    return {'t': [type_spec(c) for c in t[1]]}


def type_str(t, top=True):
    if t[0] == 'e':
        return t[1]
    if t[0] == 's':
        inner = type_str(t[1])
        return 'ℬ' + inner if t[1][0] == 's' else 'ℬ(' + inner + ')'
    parts = []
    for c in t[1]:
        s = type_str(c)
        parts.append('(' + s + ')' if c[0] == 't' else s)
    return '×'.join(parts)


def type_depth(t):
    if t[0] == 'e':
        return 0
    if t[0] == 's':
        return 1 + type_depth(t[1])
    return 1 + max(type_depth(c) for c in t[1])


def from_obs(j, dups=None):
    """observed driver JSON -> model value; dups collects True when a set listed an element twice"""
    if isinstance(j, int):
        return j
    if isinstance(j, str):
        raise ValueError('observation budget exceeded')
    if 't' in j:
        return tuple(from_obs(c, dups) for c in j['t'])
    items = [from_obs(c, dups) for c in j['s']]
    fs = frozenset(items)
    if dups is not None and len(fs) != len(items):
        dups.append(True)
    return fs


def render(j):
    """ToString rendering of an observed value (iteration order preserved)"""
    if isinstance(j, int):
        return str(j)
    if 't' in j:
        return '(' + ', '.join(render(c) for c in j['t']) + ')'
    return '{' + ', '.join(render(c) for c in j['s']) + '}'


def conforms(v, t):
    """structural conformance of a model value to a type (all elements checked)"""
    if t[0] == 'e':
        return isinstance(v, int) and not isinstance(v, bool)
    if t[0] == 't':
        return isinstance(v, tuple) and len(v) == len(t[1]) and all(conforms(c, ct) for c, ct in zip(v, t[1]))
    return isinstance(v, frozenset) and all(conforms(c, t[1]) for c in v)


def sort_key(v):
    """a deterministic total order on model values (for stable output only)"""
    if isinstance(v, int):
        return (0, v)
    if isinstance(v, tuple):
        return (1, tuple(sort_key(c) for c in v))
    return (2, len(v), tuple(sorted(sort_key(c) for c in v)))


def show(v):
    if isinstance(v, int):
        return str(v)
    if isinstance(v, tuple):
        return '(' + ', '.join(show(c) for c in v) + ')'
    return '{' + ', '.join(show(c) for c in sorted(v, key=sort_key)) + '}'


def enum_spec(v, rnd=None):
    """explicit (enumerated) construction recipe of a model value"""
    if isinstance(v, int):
        return v
    if isinstance(v, tuple):
        return {'t': [enum_spec(c, rnd) for c in v]}
    items = sorted(v, key=sort_key)
    if rnd is not None:
        rnd.shuffle(items)
    return {'s': [enum_spec(c, rnd) for c in items]}


def powerset(s):
    items = list(s)
    out = []
    for r in range(len(items) + 1):
        for comb in itertools.combinations(items, r):
            out.append(frozenset(comb))
    return frozenset(out)


def product(factors):
    return frozenset(itertools.product(*factors))


class Gen:
    """typed random generation of (model value, construction recipe)"""

    def __init__(self, rnd, base=(1, 2, 3), max_set=4, lazy=0.35, max_nodes=4000):
        self.rnd = rnd
        self.base = list(base)
        self.max_set = max_set
        self.lazy = lazy
        self.max_nodes = max_nodes

    def rand_type(self, depth, top_set=False, allow_tuple=True):
        r = self.rnd.random()
        if depth <= 0 or (not top_set and r < 0.25):
            return ('e', 'X1')
        if top_set or r < 0.62:
            return ('s', self.rand_type(depth - 1, allow_tuple=allow_tuple))
        if not allow_tuple:
            return ('s', self.rand_type(depth - 1, allow_tuple=allow_tuple))
        n = self.rnd.choice([2, 2, 2, 3, 3, 4])
        return ('t', tuple(self.rand_type(depth - 1) for _ in range(n)))

    def value(self, t, size_hint=None):
        """returns (model, spec)"""
        rnd = self.rnd
        if t[0] == 'e':
            v = rnd.choice(self.base)
            return v, (v if rnd.random() < 0.7 else {'v': v})
        if t[0] == 't':
            parts = [self.value(c) for c in t[1]]
            model = tuple(p[0] for p in parts)
            if all(c[0] == 'e' for c in t[1]) and rnd.random() < 0.3:
                return model, {'tuplev': list(model)}
            return model, {'t': [p[1] for p in parts]}
        et = t[1]
        # lazy constructions
        if et[0] == 's' and rnd.random() < self.lazy:
            bm, bs = self.value(et, size_hint=rnd.randint(0, 4))
            if len(bm) <= 5:
                return powerset(bm), {'bool': bs}
        if et[0] == 't' and all(c is not None for c in et[1]) and rnd.random() < self.lazy:
            facs = [self.value(('s', c), size_hint=rnd.randint(0, 3)) for c in et[1]]
            n = 1
            for f in facs:
                n *= len(f[0])
            if n <= 60:
                return product([sorted(f[0], key=sort_key) for f in facs]), {'dec': [f[1] for f in facs]}
        n = size_hint if size_hint is not None else rnd.choice([0, 1, 1, 2, 2, 3, 3, self.max_set])
        elems = [self.value(et) for _ in range(n)]
        model = frozenset(e[0] for e in elems)
        specs = [e[1] for e in elems]
        # duplicates, possibly in a different representation
        if elems and rnd.random() < 0.3:
            m0 = rnd.choice(elems)[0]
            specs.insert(rnd.randrange(len(specs) + 1), enum_spec(m0, rnd))
        r = rnd.random()
        if et[0] == 'e' and r < 0.25:
            return model, {'setv': [e[0] for e in elems]}
        if len(elems) == 1 and len(specs) == 1 and r < 0.4:
            return model, {'single': specs[0]}
        if not elems and r < 0.5:
            return model, rnd.choice([{'empty': 1}, {'default': 1}, {'s': []}])
        if r < 0.6:
            return model, {'s': specs}
        return model, {'add': specs}


def all_values(t, base):
    """all model values of a (small) type over a base"""
    if t[0] == 'e':
        return list(base)
    if t[0] == 't':
        return [tuple(c) for c in itertools.product(*[all_values(c, base) for c in t[1]])]
    return sorted(powerset(all_values(t[1], base)), key=sort_key)
