// Stub used only by /verif's driver build: pybind11 is not installed in this sandbox, and the
// seven pyconcept entry points are plain C++ functions. The module-definition macro is compiled
// into an unused static function so that pyconcept.cpp builds unchanged.
#pragma once
namespace pybind11 {
struct module_ {
  template <typename F>
  module_& def(const char*, F&&, const char* = nullptr) { return *this; }
};
}  // namespace pybind11
#define PYBIND11_MODULE(name, var) [[maybe_unused]] static void pybind11_stub_init_##name(pybind11::module_& var)
