#!/usr/bin/env python3
"""Ad-hoc: take the context op of a replay file and run the given texts through an op (default rs.eval).  usage: tools/rp.py replay.json [--op rs.check] text..."""
import sys, json, os, subprocess
sys.path.insert(0, os.path.dirname(os.path.dirname(os.path.abspath(__file__))))
from vf import core
drv = subprocess.run(['python3', os.path.join(os.path.dirname(__file__), 'build.py'), 'san'], capture_output=True, text=True).stdout.strip().splitlines()[-1]
a = sys.argv[1:]
d = json.load(open(a[0])); a = a[1:]
opn = 'rs.eval'
if a and a[0] == '--op':
    opn = a[1]; a = a[2:]
ops = [d['case']['ops'][0]]
for t in a:
    ops.append({'op': opn, 'ctx': 'c', 'text': t, 'syntax': 'MATH'})
for cr in core.run_driver(drv, [core.case(ops)]):
    for ev in cr.events[1:]:
        print(json.dumps(ev, ensure_ascii=False)[:700])
    if cr.death: print('DEATH', str(cr.death)[:1500])
