// C15 / C16: ccl::object::StructuredData, Factory, SDSet, SDCompact
#include "drv_sd.h"

#include "ccl/rslang/SDataCompact.h"

#include <map>

using drv::json;
using ccl::object::Factory;
using ccl::object::StructuredData;
using ccl::object::SDCompact;
using ccl::rslang::Typification;

namespace drv {

std::map<std::string, StructuredData>& Pool() {
  static std::map<std::string, StructuredData> pool;
  return pool;
}

StructuredData BuildValue(const json& spec) {
  if (spec.is_number_integer()) {
    return Factory::Val(spec.get<int32_t>());
  }
  if (spec.contains("v")) {
    return Factory::Val(spec["v"].get<int32_t>());
  }
  if (spec.contains("ref")) {
    return Pool().at(spec["ref"].get<std::string>());
  }
  if (spec.contains("t")) {
    std::vector<StructuredData> comps;
    for (const auto& c : spec["t"]) {
      comps.push_back(BuildValue(c));
    }
    return Factory::Tuple(comps);
  }
  if (spec.contains("tuplev")) {
    return Factory::TupleV(spec["tuplev"].get<std::vector<int32_t>>());
  }
  if (spec.contains("setv")) {
    return Factory::SetV(spec["setv"].get<std::vector<int32_t>>());
  }
  if (spec.contains("s")) {
    std::vector<StructuredData> elems;
    for (const auto& c : spec["s"]) {
      elems.push_back(BuildValue(c));
    }
    return Factory::Set(elems);
  }
  if (spec.contains("add")) {
    auto result = Factory::EmptySet();
    for (const auto& c : spec["add"]) {
      result.ModifyB().AddElement(BuildValue(c));
    }
    return result;
  }
  if (spec.contains("single")) {
    return Factory::Singleton(BuildValue(spec["single"]));
  }
  if (spec.contains("bool")) {
    return Factory::Boolean(BuildValue(spec["bool"]));
  }
  if (spec.contains("dec")) {
    std::vector<StructuredData> factors;
    for (const auto& c : spec["dec"]) {
      factors.push_back(BuildValue(c));
    }
    return Factory::Decartian(factors);
  }
  if (spec.contains("empty")) {
    return Factory::EmptySet();
  }
  if (spec.contains("default")) {
    return StructuredData{};
  }
  throw std::runtime_error("harness: bad value spec");
}

static void ObserveInto(const StructuredData& v, json& out, long& budget) {
  if (--budget < 0) {
    out = "BUDGET";
    return;
  }
  if (v.IsElement()) {
    out = v.E().Value();
  } else if (v.IsTuple()) {
    json arr = json::array();
    const auto arity = v.T().Arity();
    for (ccl::rslang::Index i = 0; i < arity; ++i) {
      json c;
      ObserveInto(v.T().Component(static_cast<ccl::rslang::Index>(Typification::PR_START + i)), c, budget);
      arr.push_back(std::move(c));
    }
    out = json{ {"t", std::move(arr)} };
  } else {
    json arr = json::array();
    for (const auto& el : v.B()) {
      json c;
      ObserveInto(el, c, budget);
      arr.push_back(std::move(c));
      if (budget < 0) {
        break;
      }
    }
    out = json{ {"s", std::move(arr)} };
  }
}

json Observe(const StructuredData& v, long budget) {
  json out;
  ObserveInto(v, out, budget);
  return out;
}

Typification BuildType(const json& spec) {
  if (spec.is_string()) {
    return Typification{ spec.get<std::string>() };
  }
  if (spec.contains("b")) {
    return Typification{ spec["b"].get<std::string>() };
  }
  if (spec.contains("B")) {
    return BuildType(spec["B"]).Bool();
  }
  if (spec.contains("t")) {
    std::vector<Typification> factors;
    for (const auto& c : spec["t"]) {
      factors.push_back(BuildType(c));
    }
    return Typification::Tuple(factors);
  }
  throw std::runtime_error("harness: bad type spec");
}

const char* CmpName(ccl::Comparison c) {
  switch (c) {
  case ccl::Comparison::LESS: return "LESS";
  case ccl::Comparison::EQUAL: return "EQUAL";
  case ccl::Comparison::GREATER: return "GREATER";
  case ccl::Comparison::INCOMPARABLE: return "INCOMPARABLE";
  }
  return "?";
}

}  // namespace drv

using drv::Pool;
using drv::Observe;

DRV_OP(OpSdBuild, "sd.build") {
  const auto name = a.at("name").get<std::string>();
  auto value = drv::BuildValue(a.at("spec"));
  json out = json::object();
  out["val"] = Observe(value);
  out["str"] = value.ToString();
  out["kind"] = value.IsElement() ? "e" : (value.IsTuple() ? "t" : "s");
  if (value.IsCollection()) {
    out["card"] = value.B().Cardinality();
    out["isempty"] = value.B().IsEmpty();
  }
  Pool()[name] = std::move(value);
  return out;
}

DRV_OP(OpSdObs, "sd.obs") {
  const auto& v = Pool().at(a.at("name").get<std::string>());
  json out = json::object();
  out["val"] = Observe(v);
  out["str"] = v.ToString();
  if (v.IsCollection()) {
    out["card"] = v.B().Cardinality();
    // second, independent pass of iteration (begin()/end() pairs must be repeatable)
    long n = 0;
    for (auto it = v.B().begin(); it != v.B().end(); ++it) {
      ++n;
      if (n > 5000000) break;
    }
    out["itercount"] = n;
  }
  return out;
}

DRV_OP(OpSdRel, "sd.rel") {
  const auto& x = Pool().at(a.at("a").get<std::string>());
  const auto& y = Pool().at(a.at("b").get<std::string>());
  json out = json::object();
  out["eq"] = x == y;
  out["ne"] = x != y;
  out["lt"] = x < y;
  out["gt"] = y < x;
  out["cmp"] = drv::CmpName(x.Compare(y));
  if (a.value("sets", false)) {
    out["subset"] = x.B().IsSubsetOrEq(y.B());
    out["union"] = Observe(x.B().Union(y.B()));
    out["inter"] = Observe(x.B().Intersect(y.B()));
    out["diff"] = Observe(x.B().Diff(y.B()));
    out["symdiff"] = Observe(x.B().SymDiff(y.B()));
  }
  if (a.value("member", false)) {
    out["contains"] = y.B().Contains(x);  // x in y
  }
  return out;
}

DRV_OP(OpSdUnary, "sd.unary") {
  const auto& x = Pool().at(a.at("name").get<std::string>());
  json out = json::object();
  if (a.contains("proj")) {
    std::vector<ccl::rslang::Index> idx;
    for (const auto& i : a["proj"]) {
      idx.push_back(i.get<ccl::rslang::Index>());
    }
    out["proj"] = Observe(x.B().Projection(idx));
  }
  if (a.value("reduce", false)) {
    out["reduce"] = Observe(x.B().Reduce());
  }
  if (a.value("debool", false)) {
    out["debool"] = Observe(x.B().Debool());
  }
  if (a.value("single", false)) {
    out["single"] = Observe(Factory::Singleton(x));
  }
  if (a.contains("comp")) {
    out["comp"] = Observe(x.T().Component(a["comp"].get<ccl::rslang::Index>()));
    out["arity"] = x.T().Arity();
  }
  return out;
}

// lazy product of lazy power sets, far too large to enumerate: only size-related observations
DRV_OP(OpSdHuge, "sd.huge") {
  std::vector<StructuredData> factors;
  std::vector<StructuredData> least;
  std::vector<StructuredData> greatest;
  for (const auto& k : a.at("bases")) {
    std::vector<int32_t> base;
    for (int32_t i = 1; i <= k.get<int32_t>(); ++i) {
      base.push_back(i);
    }
    const auto baseSet = Factory::SetV(base);
    factors.push_back(Factory::Boolean(baseSet));
    least.push_back(Factory::EmptySet());
    greatest.push_back(baseSet);
  }
  const auto value = Factory::Decartian(factors);
  json out = json::object();
  out["card"] = value.B().Cardinality();
  out["isempty"] = value.B().IsEmpty();
  out["eq_empty"] = value == Factory::EmptySet();
  out["lt_empty"] = value < Factory::EmptySet();
  out["cmp_empty"] = drv::CmpName(value.Compare(Factory::EmptySet()));
  const auto low = Factory::Tuple(least);
  const auto high = Factory::Tuple(greatest);
  out["contains_least"] = value.B().Contains(low);
  out["contains_greatest"] = value.B().Contains(high);
  const auto single = Factory::Singleton(low);
  out["single_subset"] = single.B().IsSubsetOrEq(value.B());
  out["lt_single"] = value < single;      // a one-element set is smaller than this one
  out["single_lt"] = single < value;
  long n = 0;
  for (auto it = value.B().begin(); it != value.B().end() && n < 3; ++it) {
    ++n;
  }
  out["first_elements"] = n;
  out["bool_card"] = Factory::Boolean(Factory::SetV({ 1, 2, 3 })).B().Cardinality();
  return out;
}

// a lazy set traversed twice (the element cache of lazy sets is keyed by position): both passes must yield the same strictly
// increasing sequence of Cardinality() elements
DRV_OP(OpSdLazyTwice, "sd.lazy2") {
  StructuredData value = Factory::EmptySet();
  if (a.contains("bool")) {
    std::vector<int32_t> base;
    for (int32_t i = 1; i <= a["bool"].get<int32_t>(); ++i) {
      base.push_back(i);
    }
    value = Factory::Boolean(Factory::SetV(base));
  } else {
    std::vector<StructuredData> factors;
    for (const auto& k : a.at("dec")) {
      std::vector<int32_t> base;
      for (int32_t i = 1; i <= k.get<int32_t>(); ++i) {
        base.push_back(i);
      }
      factors.push_back(Factory::SetV(base));
    }
    value = Factory::Decartian(factors);
  }
  const long stopFirst = a.value("stop_first", -1L);   // the first pass may stop early (a search that found its element)
  json out = json::object();
  out["card"] = value.B().Cardinality();
  json passes = json::array();
  for (int pass = 0; pass < 2; ++pass) {
    long n = 0;
    bool ordered = true;
    size_t hash = 1469598103934665603ULL;
    json marks = json::object();
    std::optional<StructuredData> prev;
    for (const auto& el : value.B()) {
      const auto text = el.ToString();
      if (n < 3 || n == 255 || n == 256 || n == 257 || n == 65535 || n == 65536 || n == 65537) {
        marks[std::to_string(n)] = text;
      }
      if (stopFirst < 0 || pass == 1 || n <= stopFirst) {
        hash = (hash ^ std::hash<std::string>{}(text)) * 1099511628211ULL;
      }
      if (prev.has_value() && !(*prev < el)) {
        ordered = false;
      }
      prev = el;
      ++n;
      if (pass == 0 && stopFirst >= 0 && n > stopFirst) {
        break;
      }
    }
    passes.push_back(json{ {"count", n}, {"ordered", ordered}, {"marks", marks}, {"hash", hash} });
  }
  out["passes"] = passes;
  return out;
}

DRV_OP(OpSdCopy, "sd.copy") {
  Pool()[a.at("to").get<std::string>()] = Pool().at(a.at("from").get<std::string>());
  return json::object();
}

DRV_OP(OpSdAdd, "sd.add") {
  auto& x = Pool().at(a.at("name").get<std::string>());
  const auto elem = drv::BuildValue(a.at("elem"));
  json out = json::object();
  out["ret"] = x.ModifyB().AddElement(elem);
  out["val"] = Observe(x);
  return out;
}

DRV_OP(OpSdClear, "sd.clear") {
  Pool().clear();
  return json::object();
}

static json PackOne(const StructuredData& value, const ccl::rslang::Typification& type) {
  json out = json::object();
  out["val0"] = Observe(value);      // what was built, observed before anything else traverses it
  out["typestr"] = type.ToString();
  out["compatible"] = ccl::object::CheckCompatible(value, type);
  const auto compact = SDCompact::FromSData(value, type);
  out["header"] = compact.header;
  out["data"] = compact.data;
  const auto back = SDCompact::Unpack(compact.data, type);
  out["back_has"] = back.has_value();
  if (back.has_value()) {
    out["back"] = Observe(*back);
    out["back_eq"] = *back == value;
    out["back_compatible"] = ccl::object::CheckCompatible(*back, type);
  }
  const auto back2 = compact.Unpack(type);
  out["back2_same"] = back2.has_value() == back.has_value() && (!back.has_value() || *back2 == *back);
  out["val"] = Observe(value);
  return out;
}

DRV_OP(OpSdcPack, "sdc.pack") {
  auto type = drv::BuildType(a.at("type"));
  json out = PackOne(drv::BuildValue(a.at("spec")), type);
  if (a.contains("then")) {
    // further packs with the SAME typification object after it was changed in place
    json more = json::array();
    for (const auto& step : a.at("then")) {
      if (step.contains("subst")) {
        ccl::rslang::Typification::Substitutes substitutes{};
        const json substSpec = step.at("subst");
        for (auto it = substSpec.begin(); it != substSpec.end(); ++it) {
          substitutes.insert({ it.key(), drv::BuildType(it.value()) });
        }
        type.SubstituteBase(substitutes);
      } else if (step.contains("assign")) {
        type = drv::BuildType(step.at("assign"));
      }
      more.push_back(PackOne(drv::BuildValue(step.at("spec")), type));
    }
    out["more"] = more;
  }
  return out;
}

DRV_OP(OpSdcUnpack, "sdc.unpack") {
  const auto type = drv::BuildType(a.at("type"));
  const auto data = a.at("data").get<SDCompact::Data>();
  json out = json::object();
  const auto value = SDCompact::Unpack(data, type);
  out["has"] = value.has_value();
  if (value.has_value()) {
    out["val"] = Observe(*value);
    out["compatible"] = ccl::object::CheckCompatible(*value, type);
    // a decoded value must survive a second round trip
    const auto again = SDCompact::FromSData(*value, type);
    const auto back = SDCompact::Unpack(again.data, type);
    out["repack_ok"] = back.has_value() && *back == *value;
  }
  return out;
}
