"""C14 — dependency-graph queries are exact for every graph and update history."""
import itertools

from . import core

PROP = 'C14'
RULE = ('histories of CGraph/UpdatableGraph mutations (AddItem, EraseItem, AddConnection, SetItemInputs, Clear, '
        'UpdateFor with feed/Invalidate/SetValid, copy); after EVERY mutation every public const method is queried over '
        'the whole uid universe (+ an absent uid) and random subsets, and compared with a Python set-of-vertices/'
        'set-of-edges model (closures by BFS, SCCs by Tarjan). Systematic part: every digraph on 3 vertices incl. '
        'self-loops built in all edge orders (<=4 edges) / 6 random orders (more), all histories of length <=2 '
        '(quick) / <=3 (thorough) over a 40-operation alphabet on 3 uids; random part: seeded histories of 10-80 ops '
        'on 5-8 uids. Distinct = hash of the mutation history; non-trivial = final model graph has >=2 edges.')
ASSUMPTIONS = [
    'IsReachableFrom(x,x) is judged only when x has a self-loop (true) or lies on no cycle (false); for x on a longer '
    'cycle without self-loop the statement is ambiguous and the case is counted as unspecified',
    'order inside a loop group and order of groups are not judged (set of sets)',
    'topological order is only required to respect edges when the model graph is acyclic',
]
EXHAUSTIVE = ['all digraphs on 3 vertices (512 edge sets), all insertion orders for <=4 edges',
              'all mutation histories of length <=2 (quick) / <=3 (thorough) over 3 uids']
MIN_JUDGED = {'quick': 20000, 'thorough': 500000}

NSH = 32


# ---------------------------------------------------------------- model

class Model:
    def __init__(self):
        self.V = set()
        self.E = set()
        self.feed = {}
        self.invalid = False

    def copy(self):
        m = Model()
        m.V = set(self.V)
        m.E = set(self.E)
        m.feed = {k: set(v) for k, v in self.feed.items()}
        return m

    def apply(self, mut, others=None):
        k = mut['k']
        if k == 'new':
            self.__init__()
        elif k == 'add':
            self.V.add(mut['u'])
        elif k == 'erase':
            u = mut['u']
            self.V.discard(u)
            self.E = {(s, d) for (s, d) in self.E if s != u and d != u}
        elif k == 'conn':
            self.V.add(mut['s'])
            self.V.add(mut['d'])
            self.E.add((mut['s'], mut['d']))
        elif k == 'inputs':
            self.set_inputs(mut['u'], mut['set'])
        elif k == 'clear':
            self.V.clear()
            self.E.clear()
        elif k == 'feed':
            self.feed[mut['u']] = set(mut['set'])
        elif k == 'updatefor':
            if not self.invalid:
                self.set_inputs(mut['u'], self.feed.get(mut['u'], set()))
        elif k == 'invalidate':
            self.invalid = True
        elif k == 'setvalid':
            self.invalid = False
        else:
            raise ValueError(k)

    def set_inputs(self, u, srcs):
        self.V.add(u)
        self.E = {(s, d) for (s, d) in self.E if d != u}
        for s in srcs:
            self.V.add(s)
            self.E.add((s, u))

    def succ(self):
        out = {v: set() for v in self.V}
        for s, d in self.E:
            out[s].add(d)
        return out

    def pred(self):
        out = {v: set() for v in self.V}
        for s, d in self.E:
            out[d].add(s)
        return out


def closure(adj, start):
    seen = set(start)
    todo = list(start)
    while todo:
        x = todo.pop()
        for y in adj.get(x, ()):
            if y not in seen:
                seen.add(y)
                todo.append(y)
    return seen


def sccs(V, succ):
    index = {}
    low = {}
    stack = []
    on = set()
    out = []
    counter = [0]

    def strong(v):
        # iterative Tarjan
        work = [(v, iter(sorted(succ[v])))]
        index[v] = low[v] = counter[0]
        counter[0] += 1
        stack.append(v)
        on.add(v)
        while work:
            node, it = work[-1]
            advanced = False
            for w in it:
                if w not in index:
                    index[w] = low[w] = counter[0]
                    counter[0] += 1
                    stack.append(w)
                    on.add(w)
                    work.append((w, iter(sorted(succ[w]))))
                    advanced = True
                    break
                elif w in on:
                    low[node] = min(low[node], index[w])
            if advanced:
                continue
            work.pop()
            if work:
                parent = work[-1][0]
                low[parent] = min(low[parent], low[node])
            if low[node] == index[node]:
                comp = set()
                while True:
                    w = stack.pop()
                    on.discard(w)
                    comp.add(w)
                    if w == node:
                        break
                out.append(comp)

    for v in sorted(V):
        if v not in index:
            strong(v)
    return out


def check_query(m, q, universe, subsets):
    """Compare one query snapshot with the model; returns list of (what, msg)."""
    bad = []
    succ = m.succ()
    pred = m.pred()
    if q['items'] != len(m.V):
        bad.append(('ItemsCount', f"{q['items']} expected {len(m.V)}"))
    if q['conns'] != len(m.E):
        bad.append(('ConnectionsCount', f"{q['conns']} expected {len(m.E)}"))
    if q['broken'] != m.invalid:
        bad.append(('IsBroken', f"{q['broken']} expected {m.invalid}"))
    comps = sccs(m.V, succ)
    cyc = [c for c in comps if len(c) > 1 or any((x, x) in m.E for x in c)]
    on_cycle = set().union(*cyc) if cyc else set()
    if q['hasloop'] != bool(cyc):
        bad.append(('HasLoop', f"{q['hasloop']} expected {bool(cyc)}"))
    got_loops = sorted(tuple(g) for g in q['loops'])
    exp_loops = sorted(tuple(sorted(c)) for c in cyc)
    if got_loops != exp_loops:
        bad.append(('GetAllLoopsItems', f'{got_loops} expected {exp_loops}'))
    unspec = 0
    for i, u in enumerate(universe):
        if q['contains'][i] != (u in m.V):
            bad.append(('Contains', f'Contains({u}) -> {q["contains"][i]}'))
        exp_in = sorted(pred.get(u, ()))
        if q['inputs'][i] != exp_in:
            bad.append(('InputsFor', f'InputsFor({u}) -> {q["inputs"][i]} expected {exp_in}'))
        reach_u = closure(succ, [u]) if u in m.V else set()
        for j, d in enumerate(universe):
            e = (u, d) in m.E
            if q['edges'][i][j] != e:
                bad.append(('ConnectionExists', f'ConnectionExists({u},{d}) -> {q["edges"][i][j]} expected {e}'))
            got = q['reach'][i][j]
            if u != d:
                exp = d in reach_u
            elif (u, u) in m.E:
                exp = True
            elif u in on_cycle:
                unspec += 1
                continue
            else:
                exp = False
            if got != exp:
                bad.append(('IsReachableFrom', f'IsReachableFrom(dest={d}, source={u}) -> {got} expected {exp}'))
    topo = q['topo']
    if sorted(topo) != sorted(m.V) or len(set(topo)) != len(topo):
        bad.append(('TopologicalOrder', f'{topo} is not a permutation of {sorted(m.V)}'))
    elif not cyc:
        pos = {v: i for i, v in enumerate(topo)}
        for s, d in m.E:
            if pos[s] >= pos[d]:
                bad.append(('TopologicalOrder', f'{topo} places target {d} before source {s}'))
                break
    if q['invtopo'] != list(reversed(topo)):
        bad.append(('InverseTopologicalOrder', f"{q['invtopo']} is not the reverse of {topo}"))
    for sub, ans in zip(subsets, q['subsets']):
        live = [x for x in sub if x in m.V]
        eo = sorted(closure(succ, live))
        ei = sorted(closure(pred, live))
        if ans['out'] != eo:
            bad.append(('ExpandOutputs', f'ExpandOutputs({sub}) -> {ans["out"]} expected {eo}'))
        if ans['in'] != ei:
            bad.append(('ExpandInputs', f'ExpandInputs({sub}) -> {ans["in"]} expected {ei}'))
        es = [x for x in topo if x in sub]
        if ans['sort'] != es:
            bad.append(('Sort', f'Sort({sub}) -> {ans["sort"]} expected {es} (order {topo})'))
    return bad, unspec


# ---------------------------------------------------------------- workload

def history_case(muts, universe, rnd=None, nsub=2, name='g'):
    ops = [{'op': 'graph.step', 'g': name, 'mut': {'k': 'new'}}]
    for m in muts:
        subsets = []
        if rnd is not None:
            for _ in range(nsub):
                subsets.append(sorted(rnd.sample(universe, rnd.randint(0, min(4, len(universe))))))
        else:
            subsets = [[universe[0]], universe[:2], universe[1:]]
        ops.append({'op': 'graph.step', 'g': name, 'mut': m, 'universe': universe, 'subsets': subsets})
    return core.case(ops, kind='history')


def alphabet3():
    U = [1, 2, 3]
    ops = []
    for u in U:
        ops.append({'k': 'add', 'u': u})
        ops.append({'k': 'erase', 'u': u})
    for s in U:
        for d in U:
            ops.append({'k': 'conn', 's': s, 'd': d})
    for u in U:
        for r in range(4):
            for sub in itertools.combinations(U, r):
                ops.append({'k': 'inputs', 'u': u, 'set': list(sub)})
    ops.append({'k': 'clear'})
    return ops


def random_history(rnd, n_uids, length):
    U = list(range(1, n_uids + 1))
    muts = []
    for _ in range(length):
        r = rnd.random()
        if r < 0.30:
            muts.append({'k': 'conn', 's': rnd.choice(U), 'd': rnd.choice(U)})
        elif r < 0.42:
            muts.append({'k': 'add', 'u': rnd.choice(U)})
        elif r < 0.57:
            muts.append({'k': 'erase', 'u': rnd.choice(U)})
        elif r < 0.75:
            muts.append({'k': 'inputs', 'u': rnd.choice(U), 'set': sorted(rnd.sample(U, rnd.randint(0, min(4, n_uids))))})
        elif r < 0.83:
            muts.append({'k': 'feed', 'u': rnd.choice(U), 'set': sorted(rnd.sample(U, rnd.randint(0, 3)))})
        elif r < 0.93:
            muts.append({'k': 'updatefor', 'u': rnd.choice(U)})
        elif r < 0.95:
            muts.append({'k': 'invalidate'})
        elif r < 0.98:
            muts.append({'k': 'setvalid'})
        else:
            muts.append({'k': 'clear'})
    return muts, U + [n_uids + 1]


def gen_cases(desc, env):
    kind, idx = desc['kind'], desc['i']
    cases = []
    if kind == 'digraphs':
        U = [1, 2, 3]
        pairs = [(s, d) for s in U for d in U]
        rnd = env.rng('digraphs', idx)
        n = 0
        for mask in range(512):
            edges = [pairs[b] for b in range(9) if mask >> b & 1]
            if len(edges) <= 4:
                orders = list(itertools.permutations(edges))
            else:
                orders = []
                for _ in range(6):
                    e = edges[:]
                    rnd.shuffle(e)
                    orders.append(tuple(e))
            for order in orders:
                if n % NSH == idx:
                    muts = [{'k': 'add', 'u': u} for u in U if rnd.random() < 0.5]
                    muts += [{'k': 'conn', 's': s, 'd': d} for s, d in order]
                    if not muts:
                        muts = [{'k': 'add', 'u': 1}]
                    cases.append(history_case(muts, U + [4]))
                n += 1
    elif kind == 'short':
        alpha = alphabet3()
        maxlen = 2 if env.tier == 'quick' else 3
        n = 0
        for ln in range(1, maxlen + 1):
            for seq in itertools.product(alpha, repeat=ln):
                if n % NSH == idx:
                    cases.append(history_case(list(seq), [1, 2, 3, 4]))
                n += 1
        rnd = env.rng('short', idx)
        for _ in range(100 if env.tier == 'quick' else 2500):
            ln = rnd.randint(3, 6)
            cases.append(history_case([rnd.choice(alpha) for _ in range(ln)], [1, 2, 3, 4]))
    elif kind == 'random':
        rnd = env.rng('random', idx)
        for _ in range(40 if env.tier == 'quick' else 1200):
            muts, U = random_history(rnd, rnd.randint(4, 8), rnd.randint(10, 80))
            cases.append(history_case(muts, U, rnd=rnd, nsub=3))
    elif kind == 'large':
        # more than 64 vertices, erasures that leave holes among the internal slots, then queries on a sample
        rnd = env.rng('large', idx)
        for _ in range(6 if env.tier == 'quick' else 120):
            n = rnd.choice([65, 66, 70, 96, 129, 130, 200])
            U = list(range(1, n + 1))
            muts = [{'k': 'add', 'u': u} for u in U]
            for u in U:
                for d in (u + 1, u + 64, u + 63, u + 65):
                    if d <= n and rnd.random() < 0.5:
                        muts.append({'k': 'conn', 's': u, 'd': d})
            for _ in range(rnd.randint(1, n - 60)):
                muts.append({'k': 'erase', 'u': rnd.choice(U)})
            for _ in range(rnd.randint(0, 6)):
                a = rnd.choice(U)
                muts.append(rnd.choice([{'k': 'conn', 's': a, 'd': rnd.choice(U)}, {'k': 'inputs', 'u': a, 'set': sorted(rnd.sample(U, 2))}, {'k': 'updatefor', 'u': a}]))
            ops = [{'op': 'graph.step', 'g': 'g', 'mut': {'k': 'new'}}]
            for k, mu in enumerate(muts):
                op = {'op': 'graph.step', 'g': 'g', 'mut': mu}
                if k >= len(muts) - 3:
                    anchor = rnd.choice(U)
                    uni = sorted(set([anchor, min(n, anchor + 64), max(1, anchor - 64), min(n, anchor + 1)] + rnd.sample(U, 14)))
                    op['universe'] = uni
                    op['subsets'] = [sorted(rnd.sample(uni, rnd.randint(1, 4))) for _ in range(4)]
                ops.append(op)
            cases.append(core.case(ops, kind='history'))
    return cases


def shards(tier, seed):
    return ([{'kind': 'digraphs', 'i': i} for i in range(NSH)] + [{'kind': 'short', 'i': i} for i in range(NSH)] +
            [{'kind': 'random', 'i': i} for i in range(NSH)] + [{'kind': 'large', 'i': i} for i in range(4)])


def judge(res, cs, cr):
    if not core.std_death_checks(res, PROP, cs, cr):
        return
    m = Model()
    hist = []
    for op, ev in zip(cs['ops'], cr.events):
        mut = op['mut']
        m.apply(mut)
        hist.append(mut)
        res.cover('mut:' + mut['k'])
        if 'universe' not in op:
            continue
        bad, unspec = check_query(m, ev['q'], op['universe'], op['subsets'])
        res.count('unspecified', unspec)
        res.count('query_rounds')
        res.count('judged', 12 + 2 * len(op['universe']) ** 2 + 3 * len(op['subsets']))
        if bad:
            seen = set()
            for what, msg in bad:
                if what in seen:
                    continue
                seen.add(what)
                prefix = cs['ops'][:len(hist) + 0]
                res.violation(f'{PROP}/graph/{what}', f'after {hist}: {msg}; model V={sorted(m.V)} E={sorted(m.E)}',
                              {'ops': cs['ops'][:len(hist)], 'meta': cs['meta']})
            break
    res.judged(repr(hist), nontrivial=len(m.E) >= 2)
    if len(m.E) >= 3:
        res.sample({'history': hist, 'final_vertices': sorted(m.V), 'final_edges': sorted(m.E)}, limit=1)


def run_shard(desc, env):
    res = core.ShardResult()
    for cs, cr in env.execute(gen_cases(desc, env), chunk=300):
        judge(res, cs, cr)
    return res


def replay(cs, env):
    res = core.ShardResult()
    for c, cr in env.execute([cs]):
        judge(res, c, cr)
    return res
