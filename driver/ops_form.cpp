// form.* / model.* : RSForm and RSModel histories (C07-C13, C10, C11, C01 second observation point)
#include "drv_sd.h"
#include "drv_rs.h"

#include "ccl/semantic/RSForm.h"
#include "ccl/semantic/RSModel.h"
#include "ccl/api/RSFormJA.h"
#include "ccl/ops/RSOperations.h"
#include "ccl/tools/JSON.h"
#include "ccl/tools/EntityGenerator.h"
#include "ccl/lang/TextEnvironment.h"

#include <functional>
#include <map>
#include <memory>

using drv::json;
using namespace ccl;            // NOLINT
using namespace ccl::semantic;  // NOLINT
using OJSON = nlohmann::ordered_json;

namespace {

std::map<std::string, std::unique_ptr<RSForm>>& Forms() {
  static std::map<std::string, std::unique_ptr<RSForm>> forms;
  return forms;
}
std::map<std::string, std::unique_ptr<RSModel>>& Models() {
  static std::map<std::string, std::unique_ptr<RSModel>> models;
  return models;
}

CstType TypeOf(const std::string& s) {
  if (s == "basic") return CstType::base;
  if (s == "constant") return CstType::constant;
  if (s == "structure") return CstType::structured;
  if (s == "axiom") return CstType::axiom;
  if (s == "term") return CstType::term;
  if (s == "function") return CstType::function;
  if (s == "theorem") return CstType::theorem;
  if (s == "predicate") return CstType::predicate;
  throw std::runtime_error("harness: bad cst type " + s);
}

const char* TypeName(CstType t) {
  switch (t) {
  case CstType::base: return "basic";
  case CstType::constant: return "constant";
  case CstType::structured: return "structure";
  case CstType::axiom: return "axiom";
  case CstType::term: return "term";
  case CstType::function: return "function";
  case CstType::theorem: return "theorem";
  case CstType::predicate: return "predicate";
  default: return "?";
  }
}

ConceptRecord RecordOf(const json& j, const std::function<std::string(std::string)>& resolve = [](std::string s) { return s; },
                       const std::function<EntityUID(const json&)>& uidOf = [](const json& u) { return u.get<EntityUID>(); }) {
  ConceptRecord rec{};
  rec.uid = uidOf(j.at("uid"));
  rec.alias = resolve(j.at("alias").get<std::string>());
  rec.type = TypeOf(j.at("type").get<std::string>());
  rec.rs = resolve(j.value("rs", std::string{}));
  rec.convention = resolve(j.value("conv", std::string{}));
  rec.term = lang::LexicalTerm{ resolve(j.value("term", std::string{})) };
  if (j.contains("forms")) {
    for (const auto& [tags, text] : j["forms"].items()) {
      rec.term.SetForm(lang::Morphology{ tags }, text.get<std::string>());
    }
  }
  rec.definition = lang::ManagedText{ resolve(j.value("text", std::string{})) };
  return rec;
}

json TranslationJ(const EntityTranslation& tr) {
  std::map<EntityUID, EntityUID> sorted(tr.begin(), tr.end());
  json out = json::array();
  for (const auto& [k, v] : sorted) {
    out.push_back(json::array({ k, v }));
  }
  return out;
}

const char* StatusName(ParsingStatus s) {
  switch (s) {
  case ParsingStatus::VERIFIED: return "verified";
  case ParsingStatus::INCORRECT: return "incorrect";
  default: return "unknown";
  }
}

json CoreSnapshot(const RSCore& core, const rsModificationFacet* mods) {
  json out = json::object();
  json list = json::array();
  for (const auto uid : core.List()) {
    list.push_back(uid);
  }
  out["list"] = list;
  json coreUids = json::array();
  for (const auto uid : core) {
    coreUids.push_back(uid);
  }
  out["core"] = coreUids;
  json textUids = json::array();
  for (const auto& cst : core.Texts()) {
    textUids.push_back(cst.uid);
  }
  out["texts"] = textUids;
  json rsUids = json::array();
  for (const auto& cst : core.RSLang()) {
    rsUids.push_back(cst.uid);
  }
  out["rslang"] = rsUids;
  json items = json::object();
  const auto& graph = core.RSLang().Graph();
  out["graph_items"] = graph.ItemsCount();
  out["graph_loop"] = graph.HasLoop();
  for (const auto uid : core) {
    json it = json::object();
    const auto& rs = core.GetRS(uid);
    const auto& text = core.GetText(uid);
    const auto& parse = core.GetParse(uid);
    it["alias"] = drv::PutBytes(rs.alias);
    it["talias"] = drv::PutBytes(text.alias);
    it["type"] = TypeName(rs.type);
    it["def"] = drv::PutBytes(rs.definition);
    it["conv"] = drv::PutBytes(rs.convention);
    it["term_raw"] = drv::PutBytes(text.term.Text().Raw());
    it["term_str"] = drv::PutBytes(text.term.Nominal());
    json forms = json::object();
    for (const auto& [form, ftext] : text.term.GetAllManual()) {
      forms[form.ToString()] = drv::PutBytes(ftext);
    }
    it["forms"] = forms;
    it["form_sd"] = drv::PutBytes(text.term.GetForm(lang::Morphology{ "sing,datv" }));
    it["text_raw"] = drv::PutBytes(text.definition.Raw());
    it["text_str"] = drv::PutBytes(text.definition.Str());
    it["status"] = StatusName(parse.status);
    it["typ"] = parse.exprType.has_value() ? drv::TypeJ(parse.exprType.value()) : json{};
    json args = json::array();
    if (parse.arguments.has_value()) {
      for (const auto& a : parse.arguments.value()) {
        args.push_back(json::array({ drv::PutBytes(a.name), a.type.ToString() }));
      }
    }
    it["args"] = args;
    it["vclass"] = parse.valueClass == rslang::ValueClass::value ? "value" : (parse.valueClass == rslang::ValueClass::props ? "props" : "invalid");
    it["ast"] = parse.ast != nullptr ? drv::PutBytes(rslang::AST2String::Apply(*parse.ast)) : json{};
    std::vector<EntityUID> inputs;
    for (const auto in : graph.InputsFor(uid)) {
      inputs.push_back(in);
    }
    std::sort(inputs.begin(), inputs.end());
    it["inputs"] = inputs;
    it["in_graph"] = graph.Contains(uid);
    std::vector<EntityUID> tin;
    for (const auto in : core.Texts().TermGraph().InputsFor(uid)) {
      tin.push_back(in);
    }
    std::sort(tin.begin(), tin.end());
    it["term_inputs"] = tin;
    const auto found = core.FindAlias(rs.alias);
    it["findalias"] = found.has_value() ? json(found.value()) : json{};
    if (mods != nullptr) {
      const auto* flags = (*mods)(uid);
      if (flags != nullptr) {
        it["track"] = json::array({ flags->allowEdit, flags->term, flags->definition, flags->convention });
      } else {
        it["track"] = nullptr;
      }
    }
    items[std::to_string(uid)] = it;
  }
  out["items"] = items;
  return out;
}

std::vector<EntityUID>& Gone();

json FormSnapshot(const RSForm& form) {
  auto out = CoreSnapshot(form.Core(), &form.Mods());
  // erased constituents must be gone from the tracking view as well
  json goneTracked = json::array();
  for (const auto uid : Gone()) {
    if (!form.Contains(uid) && form.Mods().IsTracking(uid)) {
      goneTracked.push_back(uid);
    }
  }
  out["gone_tracked"] = goneTracked;
  out["title"] = drv::PutBytes(form.title);
  out["corehash"] = form.CoreHash();
  out["fullhash"] = form.FullHash();
  return out;
}

ListIterator WhereOf(const RSCore& core, const json& before) {
  if (before.is_null()) {
    return core.List().end();
  }
  if (before.is_string()) {
    return core.List().begin();
  }
  return core.List().Find(before.get<EntityUID>());
}

ops::EquationOptions EquationsOf(const json& pairs, const std::function<EntityUID(const json&, int)>& uidOf = [](const json& u, int) { return u.get<EntityUID>(); }) {
  ops::EquationOptions out{};
  for (const auto& p : pairs) {
    const auto mode = p.size() > 2 ? p.at(2).get<std::string>() : std::string{ "keepHier" };
    ops::Equation eq{ mode == "keepDel" ? ops::Equation::Mode::keepDel : (mode == "createNew" ? ops::Equation::Mode::createNew : ops::Equation::Mode::keepHier),
                      p.size() > 3 ? p.at(3).get<std::string>() : std::string{} };
    out.Insert(uidOf(p.at(0), 0), uidOf(p.at(1), 1), eq);
  }
  return out;
}

// ---- state-relative arguments: scripts are static, arguments are drawn from the CURRENT state when executed
std::vector<EntityUID>& Gone() {
  static std::vector<EntityUID> gone;
  return gone;
}

std::vector<EntityUID>& Made() {
  static std::vector<EntityUID> made;      // uids returned by Emplace, in order of creation (list position depends on the kind)
  return made;
}

EntityUID MadeAt(long index) {
  if (Made().empty()) {
    return 4243;
  }
  const auto n = static_cast<long>(Made().size());
  return Made().at(static_cast<size_t>(((index % n) + n) % n));
}

EntityUID UidAt(const RSCore& core, long index) {
  const auto size = static_cast<long>(core.List().size());
  if (size == 0) {
    return 4242;
  }
  auto it = core.List().begin();
  for (long k = ((index % size) + size) % size; k > 0; --k) {
    ++it;
  }
  return *it;
}

EntityUID UidOf(const RSCore& core, const json& j) {
  if (j.is_number()) {
    return j.get<EntityUID>();
  }
  if (j.contains("idx")) {
    return UidAt(core, j["idx"].get<long>());
  }
  if (j.contains("made")) {
    return MadeAt(j["made"].get<long>());     // negative: counted from the most recently created
  }
  if (j.contains("gone")) {
    if (Gone().empty()) {
      return 777;
    }
    const auto g = j["gone"].get<long>();   // negative: counted from the most recently erased
    const auto n = static_cast<long>(Gone().size());
    return Gone().at(static_cast<size_t>(((g % n) + n) % n));
  }
  throw std::runtime_error("harness: bad uid argument");
}

std::string ResolveText(const RSCore& core, std::string text, std::optional<EntityUID> self = std::nullopt) {
  // $[n] -> alias of the n-th constituent of the list, $def[n] -> its formal definition, $self -> alias of the target
  for (int guard = 0; guard < 50; ++guard) {
    const auto pos = text.find('$');
    if (pos == std::string::npos) {
      break;
    }
    if (text.compare(pos, 5, "$self") == 0) {
      text.replace(pos, 5, self.has_value() && core.Contains(*self) ? core.GetRS(*self).alias : std::string{ "X99" });
      continue;
    }
    const bool isDef = text.compare(pos, 5, "$def[") == 0;
    const bool isMade = text.compare(pos, 6, "$made[") == 0;
    const bool isNominal = text.compare(pos, 5, "$nom[") == 0;     // resolved nominal term text of a CREATED constituent
    const auto open = text.find('[', pos);
    const auto close = text.find(']', pos);
    if (open == std::string::npos || close == std::string::npos || open > close || (open != pos + 1 && !isDef && !isMade && !isNominal)) {
      text.replace(pos, 1, "#");
      continue;
    }
    const auto index = std::stol(text.substr(open + 1, close - open - 1));
    const auto uid = (isMade || isNominal) ? MadeAt(index) : UidAt(core, index);
    std::string repl = "X99";
    if (core.Contains(uid)) {
      repl = isDef ? core.GetRS(uid).definition : (isNominal ? core.GetText(uid).term.Nominal() : core.GetRS(uid).alias);
    }
    text.replace(pos, close - pos + 1, repl);
  }
  return text;
}

// common mutators of RSForm / RSModel
template <typename Holder>
bool CommonOp(Holder& h, const std::string& k, const json& a, json& out) {
  if (k == "emplace") {
    const auto def = ResolveText(h.Core(), a.value("def", std::string{}));
    out["args"] = json{ {"def", drv::PutBytes(def)} };
    const auto madeUid = h.Emplace(TypeOf(a.at("type").get<std::string>()), def);
    Made().push_back(madeUid);
    out["ret"] = madeUid;
  } else if (k == "insertcopy_rec") {
    const auto& core = h.Core();
    const auto rec = RecordOf(a.at("rec"), [&core](std::string t) { return ResolveText(core, std::move(t)); }, [&core](const json& u) { return UidOf(core, u); });
    out["args"] = json{ {"uid", rec.uid}, {"alias", drv::PutBytes(rec.alias)}, {"rs", drv::PutBytes(rec.rs)} };
    out["ret"] = h.InsertCopy(rec);
  } else if (k == "insertcopy_bulk_rec") {
    std::vector<ConceptRecord> recs;
    const auto& core = h.Core();
    json argsj = json::array();
    for (const auto& r : a.at("recs")) {
      recs.push_back(RecordOf(r, [&core](std::string t) { return ResolveText(core, std::move(t)); }, [&core](const json& u) { return UidOf(core, u); }));
      argsj.push_back(json{ {"uid", recs.back().uid}, {"alias", drv::PutBytes(recs.back().alias)} });
    }
    out["args"] = argsj;
    out["ret"] = h.InsertCopy(recs);
  } else if (k == "erase") {
    const auto uid = UidOf(h.Core(), a.at("uid"));
    out["args"] = json{ {"uid", uid} };
    const bool existed = h.Core().Contains(uid);
    const bool ret = h.Erase(uid);
    if (ret && existed) {
      Gone().push_back(uid);
    }
    out["ret"] = ret;
  } else if (k == "setexpr") {
    const auto uid = UidOf(h.Core(), a.at("uid"));
    const auto text = ResolveText(h.Core(), a.at("text").get<std::string>(), uid);
    out["args"] = json{ {"uid", uid}, {"text", drv::PutBytes(text)} };
    out["ret"] = h.SetExpressionFor(uid, text);
  } else if (k == "setalias") {
    const auto uid = UidOf(h.Core(), a.at("uid"));
    const auto alias = ResolveText(h.Core(), a.at("alias").get<std::string>(), uid);
    out["args"] = json{ {"uid", uid}, {"alias", drv::PutBytes(alias)}, {"old", h.Core().Contains(uid) ? json(h.Core().GetRS(uid).alias) : json{}} };
    out["ret"] = h.SetAliasFor(uid, alias, a.value("subst", true));
  } else if (k == "setterm") {
    const auto uid = UidOf(h.Core(), a.at("uid"));
    const auto text = ResolveText(h.Core(), a.at("text").get<std::string>(), uid);
    out["args"] = json{ {"uid", uid}, {"text", drv::PutBytes(text)} };
    out["ret"] = h.SetTermFor(uid, text);
  } else if (k == "settermform") {
    const auto uid = UidOf(h.Core(), a.at("uid"));
    out["args"] = json{ {"uid", uid} };
    out["ret"] = h.SetTermFormFor(uid, a.at("text").get<std::string>(), lang::Morphology{ a.at("tags").get<std::string>() });
  } else if (k == "setdef") {
    const auto uid = UidOf(h.Core(), a.at("uid"));
    const auto text = ResolveText(h.Core(), a.at("text").get<std::string>(), uid);
    out["args"] = json{ {"uid", uid}, {"text", drv::PutBytes(text)} };
    out["ret"] = h.SetDefinitionFor(uid, text);
  } else if (k == "setconv") {
    const auto uid = UidOf(h.Core(), a.at("uid"));
    const auto text = ResolveText(h.Core(), a.at("text").get<std::string>(), uid);
    out["args"] = json{ {"uid", uid}, {"text", drv::PutBytes(text)} };
    out["ret"] = h.SetConventionFor(uid, text);
  } else if (k == "move") {
    const auto uid = UidOf(h.Core(), a.at("uid"));
    const auto& before = a.at("before");
    auto where = before.is_null() ? h.Core().List().end() : (before.is_string() ? h.Core().List().begin() : h.Core().List().Find(UidOf(h.Core(), before)));
    out["args"] = json{ {"uid", uid}, {"before", where == h.Core().List().end() ? json{} : json(*where)} };
    out["ret"] = h.MoveBefore(uid, where);
  } else if (k == "resetaliases") {
    h.ResetAliases();
  } else if (k == "updatestate") {
    h.UpdateState();
  } else {
    return false;
  }
  return true;
}

}  // namespace

DRV_OP(OpFormSeed, "form.seed") {
  tools::EntityGenerator::VerifSeed(a.at("seed").get<uint64_t>());
  Gone().clear();
  lang::TextEnvironment::Instance().skipResolving = a.value("skip", false);
  Forms().clear();
  Models().clear();
  return json::object();
}

DRV_OP(OpFormOp, "form.op") {
  const auto name = a.at("f").get<std::string>();
  const auto k = a.at("k").get<std::string>();
  json out = json::object();
  if (k == "new") {
    Forms()[name] = std::make_unique<RSForm>();
  } else if (k == "copy") {
    Forms()[a.at("to").get<std::string>()] = std::make_unique<RSForm>(*Forms().at(name));
  } else if (k == "fromjson") {
    auto wrapper = api::RSFormJA::FromJSON(a.at("doc").is_string() ? a.at("doc").get<std::string>() : a.at("doc").dump());
    Forms()[name] = std::make_unique<RSForm>(wrapper.data());
  } else {
    auto& form = *Forms().at(name);
    // constituents that disappear inside an operation (duplicate elimination, equation) are remembered as erased too
    std::vector<EntityUID> uidsBefore(form.Core().begin(), form.Core().end());
    struct GoneRecorder {
      const RSForm& form;
      std::vector<EntityUID> before;
      ~GoneRecorder() {
        for (const auto uid : before) {
          if (!form.Contains(uid) && std::find(Gone().begin(), Gone().end(), uid) == Gone().end()) {
            Gone().push_back(uid);
          }
        }
      }
    } recorder{ form, std::move(uidsBefore) };
    if (CommonOp(form, k, a, out)) {
      // done
    } else if (k == "insertcopy_from") {
      const auto& srcCore = Forms().at(a.at("src").get<std::string>())->Core();
      const auto uid = UidOf(srcCore, a.at("uid"));
      out["args"] = json{ {"uid", uid} };
      if (srcCore.Contains(uid)) {
        out["ret"] = form.InsertCopy(uid, srcCore);
      }
    } else if (k == "insertcopy_bulk_from") {
      const auto& srcCore = Forms().at(a.at("src").get<std::string>())->Core();
      VectorOfEntities uids;
      for (const auto& u : a.at("uids")) {
        const auto uid = UidOf(srcCore, u);
        if (srcCore.Contains(uid) && std::find(uids.begin(), uids.end(), uid) == uids.end()) {
          uids.push_back(uid);
        }
      }
      out["args"] = json{ {"uids", uids} };
      out["ret"] = form.InsertCopy(uids, srcCore);
    } else if (k == "load_rec") {
      out["ret"] = form.Load(RecordOf(a.at("rec")));
    } else if (k == "track") {
      TrackingFlags flags{};
      const auto& f = a.at("flags");
      flags.allowEdit = f.at(0).get<bool>();
      flags.term = f.at(1).get<bool>();
      flags.definition = f.at(2).get<bool>();
      flags.convention = f.at(3).get<bool>();
      const auto uid = UidOf(form.Core(), a.at("uid"));
      out["args"] = json{ {"uid", uid} };
      form.Mods().Track(uid, flags);
    } else if (k == "stoptrack") {
      form.Mods().StopTracking(UidOf(form.Core(), a.at("uid")));
    } else if (k == "resettracking") {
      form.Mods().ResetAll();
    } else if (k == "merge") {
      out["ret"] = TranslationJ(form.Ops().MergeWith(*Forms().at(a.at("src").get<std::string>())));
    } else if (k == "dedup") {
      out["ret"] = TranslationJ(form.Ops().DeleteDuplicates());
    } else if (k == "isequatable") {
      const auto& core = form.Core();
      const auto eqs = EquationsOf(a.at("pairs"), [&core](const json& u, int) { return UidOf(core, u); });
      out["args"] = TranslationJ([&eqs] { EntityTranslation t{}; for (const auto& [k2, v2] : eqs) { t.Insert(k2, v2); } return t; }());
      out["ret"] = form.Ops().IsEquatable(eqs);
    } else if (k == "equate") {
      const auto& core = form.Core();
      const auto eqs = EquationsOf(a.at("pairs"), [&core](const json& u, int) { return UidOf(core, u); });
      out["args"] = TranslationJ([&eqs] { EntityTranslation t{}; for (const auto& [k2, v2] : eqs) { t.Insert(k2, v2); } return t; }());
      const auto res = form.Ops().Equate(eqs);
      out["ret"] = res.has_value() ? TranslationJ(*res) : json{};
    } else {
      return json{ {"harness_error", "bad form op " + k} };
    }
  }
  if (a.value("snap", false) && Forms().contains(name)) {
    out["snap"] = FormSnapshot(*Forms().at(name));
  }
  return out;
}

DRV_OP(OpFormSnap, "form.snap") {
  const auto& form = *Forms().at(a.at("f").get<std::string>());
  json out = json::object();
  out["snap"] = FormSnapshot(form);
  if (a.value("fresh", false)) {
    // a schema freshly built from the same content: minimal JSON has no cached parse/resolved fields
    const auto wrapper = api::RSFormJA::FromData(RSForm{ form });
    auto minimal = OJSON::parse(wrapper.ToMinimalJSON());
    for (auto& item : minimal["items"]) {
      item["term"]["resolved"] = "";
      item["definition"]["text"]["resolved"] = "";
    }
    auto fresh = api::RSFormJA::FromJSON(minimal.dump());
    // tracking flags are not part of the minimal document
    out["fresh"] = CoreSnapshot(fresh.data().Core(), nullptr);
  }
  if (a.value("json", false)) {
    const auto wrapper = api::RSFormJA::FromData(RSForm{ form });
    const auto doc1 = wrapper.ToJSON();
    auto loaded = api::RSFormJA::FromJSON(doc1);
    const auto doc2 = loaded.ToJSON();
    out["doc1"] = json::parse(doc1);
    out["doc2"] = json::parse(doc2);
    out["loaded"] = FormSnapshot(loaded.data());
    if (a.value("keep", false)) {
      Forms()[a.value("keepas", std::string{ "loaded" })] = std::make_unique<RSForm>(loaded.data());
    }
  }
  return out;
}

DRV_OP(OpFormExtract, "form.extract") {
  const auto& form = *Forms().at(a.at("f").get<std::string>());
  SetOfEntities args;
  json out = json::object();
  std::vector<EntityUID> sortedArgs;
  for (const auto& u : a.at("uids")) {
    args.insert(UidOf(form.Core(), u));
  }
  sortedArgs.assign(args.begin(), args.end());
  std::sort(sortedArgs.begin(), sortedArgs.end());
  out["args"] = sortedArgs;
  out["source"] = FormSnapshot(form);
  std::unique_ptr<RSForm> result;
  if (a.at("k").get<std::string>() == "basis") {
    ops::OpExtractBasis op{ form, args };
    out["correct"] = op.IsCorrectlyDefined();
    result = op.Execute();
  } else {
    ops::OpMaxPart op{ form, args };
    out["correct"] = op.IsCorrectlyDefined();
    result = op.Execute();
  }
  out["has"] = result != nullptr;
  if (result != nullptr) {
    out["result"] = FormSnapshot(*result);
    if (a.contains("to")) {
      Forms()[a["to"].get<std::string>()] = std::move(result);
    }
  }
  return out;
}

DRV_OP(OpFormSynth, "form.synth") {
  const auto& f1 = *Forms().at(a.at("a").get<std::string>());
  const auto& f2 = *Forms().at(a.at("b").get<std::string>());
  json out = json::object();
  const auto eqs = EquationsOf(a.at("pairs"), [&f1, &f2](const json& u, int side) { return UidOf(side == 0 ? f1.Core() : f2.Core(), u); });
  out["args"] = TranslationJ([&eqs] { EntityTranslation t{}; for (const auto& [k2, v2] : eqs) { t.Insert(k2, v2); } return t; }());
  ops::BinarySynthes synth{ f1, f2, eqs };
  out["correct"] = synth.IsCorrectlyDefined();
  auto result = synth.Execute();
  out["has"] = result != nullptr;
  if (result != nullptr) {
    out["result"] = FormSnapshot(*result);
    json trs = json::array();
    for (const auto& tr : synth.Translations()) {
      trs.push_back(TranslationJ(tr));
    }
    out["translations"] = trs;
    if (a.contains("to")) {
      Forms()[a["to"].get<std::string>()] = std::move(result);
    }
  }
  out["a_after"] = FormSnapshot(f1);
  out["b_after"] = FormSnapshot(f2);
  return out;
}

// ------------------------------------------------------------------------------------------------ models
namespace {

const char* EvalName(EvalStatus s) {
  switch (s) {
  case EvalStatus::NEVER_CALCULATED: return "never";
  case EvalStatus::INCALCULABLE: return "incalculable";
  case EvalStatus::AXIOM_FAIL: return "axiom_fail";
  case EvalStatus::EMPTY: return "empty";
  case EvalStatus::HAS_DATA: return "has_data";
  default: return "unknown";
  }
}

json ModelValues(const RSModel& model) {
  json out = json::object();
  for (const auto uid : model.Core()) {
    json it = json::object();
    it["status"] = EvalName(model.Calculations()(uid));
    it["wascalc"] = model.Calculations().WasCalculated(uid);
    const auto data = model.Values().SDataFor(uid);
    it["sdata"] = data.has_value() ? drv::Observe(*data, 50000) : json{};
    const auto st = model.Values().StatementFor(uid);
    it["statement"] = st.has_value() ? json(*st) : json{};
    const auto* texts = model.Values().TextFor(uid);
    if (texts != nullptr) {
      json tj = json::object();
      for (const auto& [key, val] : *texts) {
        tj[std::to_string(key)] = drv::PutBytes(val);
      }
      it["texts"] = tj;
    }
    out[std::to_string(uid)] = it;
  }
  return out;
}

json ModelSnapshot(const RSModel& model) {
  auto out = CoreSnapshot(model.Core(), nullptr);
  out["values"] = ModelValues(model);
  return out;
}

TextInterpretation TextsOf(const json& j) {
  TextInterpretation out{};
  for (const auto& [key, val] : j.items()) {
    out.SetInterpretantFor(std::stoi(key), val.get<std::string>());
  }
  return out;
}

}  // namespace

DRV_OP(OpModelOp, "model.op") {
  const auto name = a.at("m").get<std::string>();
  const auto k = a.at("k").get<std::string>();
  json out = json::object();
  if (k == "new") {
    Models()[name] = std::make_unique<RSModel>();
  } else if (k == "fromjson") {
    auto model = std::make_unique<RSModel>();
    const auto doc = OJSON::parse(a.at("doc").is_string() ? a.at("doc").get<std::string>() : a.at("doc").dump());
    doc.get_to(*model);
    Models()[name] = std::move(model);
  } else {
    auto& model = *Models().at(name);
    if (CommonOp(model, k, a, out)) {
      // done
    } else if (k == "addelem") {
      const auto res = model.Values().AddBasicElement(UidOf(model.Core(), a.at("uid")), a.at("name").get<std::string>());
      out["ret"] = res.has_value() ? json(*res) : json{};
    } else if (k == "settext") {
      out["ret"] = model.Values().SetBasicText(UidOf(model.Core(), a.at("uid")), TextsOf(a.at("texts")));
    } else if (k == "setstruct") {
      out["ret"] = model.Values().SetStructureData(UidOf(model.Core(), a.at("uid")), drv::BuildValue(a.at("value")));
    } else if (k == "resetdata") {
      model.Values().ResetDataFor(UidOf(model.Core(), a.at("uid")));
    } else if (k == "calculate") {
      out["ret"] = model.Calculations().Calculate(UidOf(model.Core(), a.at("uid")));
    } else if (k == "recalcall") {
      model.Calculations().RecalculateAll();
    } else {
      return json{ {"harness_error", "bad model op " + k} };
    }
  }
  if (a.value("snap", false) && Models().contains(name)) {
    out["snap"] = ModelSnapshot(*Models().at(name));
  }
  return out;
}

DRV_OP(OpModelSnap, "model.snap") {
  const auto& model = *Models().at(a.at("m").get<std::string>());
  json out = json::object();
  out["snap"] = ModelSnapshot(model);
  if (a.value("rebuild", false)) {
    // reconstruction from the current base data and current definitions, then full recalculation
    RSModel fresh{};
    std::vector<ConceptRecord> records;
    for (const auto uid : model.List()) {
      records.push_back(model.Core().AsRecord(uid));
    }
    for (auto& rec : records) {
      fresh.Load(std::move(rec));
    }
    fresh.UpdateState();
    fresh.FinalizeLoadingCore();
    for (const auto uid : model.List()) {
      const auto type = model.GetRS(uid).type;
      if (IsBaseSet(type)) {
        const auto* texts = model.Values().TextFor(uid);
        if (texts != nullptr) {
          fresh.Values().SetBasicText(uid, *texts);
        }
      }
    }
    json struct_set = json::object();
    for (const auto uid : model.List()) {
      if (model.GetRS(uid).type == CstType::structured) {
        const auto data = model.Values().SDataFor(uid);
        if (data.has_value()) {
          struct_set[std::to_string(uid)] = fresh.Values().SetStructureData(uid, *data) || fresh.Values().SDataFor(uid) == data;
        }
      }
    }
    fresh.Calculations().RecalculateAll();
    out["rebuilt"] = ModelSnapshot(fresh);
    out["struct_accepted"] = struct_set;
  }
  if (a.value("json", false)) {
    // workload bound: the document round trip of a model holding a value of tens of thousands of nested sets takes longer than the
    // per-operation budget under the sanitizers; such states are reported as skipped instead of being serialised
    size_t cells = 0;
    const std::function<void(const ccl::object::StructuredData&)> weigh = [&](const ccl::object::StructuredData& v) {
      if (cells > 20000) {
        return;
      }
      ++cells;
      if (v.IsCollection()) {
        if (v.B().Cardinality() > 20000) {
          cells += 20001;
          return;
        }
        for (const auto& e : v.B()) {
          weigh(e);
        }
      } else if (v.IsTuple()) {
        for (ccl::rslang::Index i = ccl::rslang::Typification::PR_START; i < v.T().Arity() + ccl::rslang::Typification::PR_START; ++i) {
          weigh(v.T().Component(i));
        }
      }
    };
    for (const auto uid : model.List()) {
      if (const auto data = model.Values().SDataFor(uid); data.has_value()) {
        weigh(*data);
      }
    }
    if (cells > 20000) {
      out["json_skipped"] = true;
      return out;
    }
    const OJSON doc1(model);
    RSModel loaded{};
    doc1.get_to(loaded);
    const OJSON doc2(loaded);
    out["doc1"] = json::parse(doc1.dump());
    out["doc2"] = json::parse(doc2.dump());
    out["loaded"] = ModelSnapshot(loaded);
  }
  return out;
}
