// Shared helpers for structured data values/types (used by sd.*, sdc.*, rs.*, model.* ops)
#pragma once
#include "drv.h"

#include "ccl/rslang/StructuredData.h"
#include "ccl/rslang/Typification.h"

#include <map>

namespace drv {
std::map<std::string, ccl::object::StructuredData>& Pool();
ccl::object::StructuredData BuildValue(const json& spec);
json Observe(const ccl::object::StructuredData& v, long budget = 400000);
ccl::rslang::Typification BuildType(const json& spec);
const char* CmpName(ccl::Comparison c);
}  // namespace drv
