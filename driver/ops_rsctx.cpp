// rslang analysis ops with an explicit (fake) context: rs.ctx, rs.check, rs.eval (C01-C04, C18)
#include "drv_rs.h"
#include "drv_sd.h"

#include "ccl/rslang/Auditor.h"
#include "ccl/rslang/Interpreter.h"
#include "ccl/rslang/RSGenerator.h"

#include <map>
#include <memory>

using drv::json;
using namespace ccl::rslang;  // NOLINT
using ccl::object::StructuredData;

namespace {

struct FakeContext : TypeContext {
  std::map<std::string, ExpressionType> types;
  std::map<std::string, FunctionArguments> funcs;
  std::map<std::string, TypeTraits> traits;
  std::map<std::string, ccl::meta::UniqueCPPtr<SyntaxTree>> asts;
  std::map<std::string, ValueClass> vclass;
  std::map<std::string, StructuredData> data;

  [[nodiscard]] const ExpressionType* TypeFor(const std::string& name) const override {
    const auto it = types.find(name);
    return it == types.end() ? nullptr : &it->second;
  }
  [[nodiscard]] const FunctionArguments* FunctionArgsFor(const std::string& name) const override {
    const auto it = funcs.find(name);
    return it == funcs.end() ? nullptr : &it->second;
  }
  [[nodiscard]] std::optional<TypeTraits> TraitsFor(const Typification& type) const override {
    if (!type.IsElement()) {
      return std::nullopt;
    }
    if (type == Typification::Integer()) {
      return TraitsIntegral;
    }
    const auto it = traits.find(type.E().baseID);
    if (it == traits.end()) {
      return std::nullopt;
    }
    return it->second;
  }

  [[nodiscard]] SyntaxTreeContext AstContext() const {
    return [this](const std::string& name) -> const SyntaxTree* {
      const auto it = asts.find(name);
      return it == asts.end() ? nullptr : it->second.get();
    };
  }
  [[nodiscard]] ValueClassContext ClassContext() const {
    return [this](const std::string& name) {
      const auto it = vclass.find(name);
      return it == vclass.end() ? ValueClass::invalid : it->second;
    };
  }
  [[nodiscard]] DataContext DataCtx() const {
    return [this](const std::string& name) -> std::optional<StructuredData> {
      const auto it = data.find(name);
      if (it == data.end()) {
        return std::nullopt;
      }
      return it->second;
    };
  }
};

std::map<std::string, std::unique_ptr<FakeContext>>& Contexts() {
  static std::map<std::string, std::unique_ptr<FakeContext>> ctx;
  return ctx;
}

struct Analysers {
  std::unique_ptr<Auditor> auditor;
  std::unique_ptr<Interpreter> interpreter;
};
std::map<std::string, Analysers>& Objects() {
  static std::map<std::string, Analysers> objects;
  return objects;
}

const char* ClassName(ValueClass c) {
  switch (c) {
  case ValueClass::value: return "value";
  case ValueClass::props: return "props";
  default: return "invalid";
  }
}

ValueClass ClassOf(const std::string& s) {
  if (s == "value") return ValueClass::value;
  if (s == "props") return ValueClass::props;
  return ValueClass::invalid;
}

json ArgsJ(const FunctionArguments& args) {
  json out = json::array();
  for (const auto& a : args) {
    out.push_back(json::array({ drv::PutBytes(a.name), a.type.ToString() }));
  }
  return out;
}

json CheckJ(Auditor& auditor, const std::string& text, Syntax syntax) {
  json out = json::object();
  const bool ok = auditor.CheckType(text, syntax);
  out["ok"] = ok;
  out["parsed"] = auditor.isParsed;
  if (ok) {
    out["type"] = drv::TypeJ(auditor.GetType());
    out["args"] = ArgsJ(auditor.GetDeclarationArgs());
    out["ast"] = drv::PutBytes(AST2String::Apply(auditor.parser.AST()));
  }
  const auto nTypeErrors = auditor.Errors().All().size();
  out["type_errors"] = drv::ErrorsJ(auditor.Errors());
  const bool vok = auditor.CheckValue();
  out["vok"] = vok;
  out["vclass"] = ClassName(auditor.GetValueClass());
  out["errors"] = drv::ErrorsJ(auditor.Errors());
  out["n_type_errors"] = nTypeErrors;
  return out;
}

json EvalJ(Interpreter& interp, const std::string& text, Syntax syntax) {
  json out = json::object();
  const auto value = interp.Evaluate(text, syntax);
  out["has"] = value.has_value();
  if (value.has_value()) {
    if (std::holds_alternative<bool>(*value)) {
      out["bool"] = std::get<bool>(*value);
    } else {
      const auto& sd = std::get<StructuredData>(*value);
      out["val"] = drv::Observe(sd, 60000);
      out["str"] = sd.ToString().substr(0, 2000);
    }
  }
  out["errors"] = drv::ErrorsJ(interp.Errors());
  out["iterations"] = interp.Iterations();
  return out;
}

}  // namespace

DRV_OP(OpRsCtx, "rs.ctx") {
  const auto name = a.at("ctx").get<std::string>();
  // analysers hold references into the context: drop those bound to a context that is being replaced
  for (auto it = Objects().begin(); it != Objects().end();) {
    if (it->first.rfind(name + "/", 0) == 0) {
      it = Objects().erase(it);
    } else {
      ++it;
    }
  }
  auto ctx = std::make_unique<FakeContext>();
  const auto& spec = a.at("spec");
  json out = json::object();
  const json j_types = spec.value("types", json::object());
  for (const auto& [key, val] : j_types.items()) {
    if (val.is_string() && val.get<std::string>() == "LOGIC") {
      ctx->types.emplace(key, LogicT{});
    } else {
      ctx->types.emplace(key, drv::BuildType(val));
    }
  }
  const json j_funcs = spec.value("funcs", json::object());
  for (const auto& [key, val] : j_funcs.items()) {
    FunctionArguments args;
    for (const auto& arg : val) {
      args.emplace_back(arg.at(0).get<std::string>(), drv::BuildType(arg.at(1)));
    }
    ctx->funcs.emplace(key, std::move(args));
  }
  const json j_traits = spec.value("traits", json::object());
  for (const auto& [key, val] : j_traits.items()) {
    const auto kind = val.get<std::string>();
    ctx->traits.emplace(key, kind == "integral" ? TraitsIntegral : (kind == "ordered" ? TraitsOrdered : TraitsNominal));
  }
  const json j_vclass = spec.value("vclass", json::object());
  for (const auto& [key, val] : j_vclass.items()) {
    ctx->vclass.emplace(key, ClassOf(val.get<std::string>()));
  }
  const json j_data = spec.value("data", json::object());
  for (const auto& [key, val] : j_data.items()) {
    ctx->data.emplace(key, drv::BuildValue(val));
  }
  json astOk = json::object();
  const json j_asts = spec.value("asts", json::object());
  for (const auto& [key, val] : j_asts.items()) {
    Parser parser{};
    if (parser.Parse(val.get<std::string>(), Syntax::MATH)) {
      ctx->asts.emplace(key, parser.ExtractAST());
      astOk[key] = true;
    } else {
      astOk[key] = false;
    }
  }
  out["asts"] = astOk;
  Contexts()[name] = std::move(ctx);
  return out;
}

// change declarations of an existing context IN PLACE: long-lived analysers bound to it stay alive and must follow
DRV_OP(OpRsCtxPatch, "rs.ctx.patch") {
  auto& ctx = *Contexts().at(a.at("ctx").get<std::string>());
  const auto& spec = a.at("spec");
  const json p_types = spec.value("types", json::object());
  for (const auto& [key, val] : p_types.items()) {
    ctx.types.erase(key);
    if (val.is_string() && val.get<std::string>() == "LOGIC") {
      ctx.types.emplace(key, LogicT{});
    } else {
      ctx.types.emplace(key, drv::BuildType(val));
    }
  }
  const json p_funcs = spec.value("funcs", json::object());
  for (const auto& [key, val] : p_funcs.items()) {
    FunctionArguments args;
    for (const auto& arg : val) {
      args.emplace_back(arg.at(0).get<std::string>(), drv::BuildType(arg.at(1)));
    }
    ctx.funcs.erase(key);
    ctx.funcs.emplace(key, std::move(args));
  }
  const json p_vclass = spec.value("vclass", json::object());
  for (const auto& [key, val] : p_vclass.items()) {
    ctx.vclass.erase(key);
    ctx.vclass.emplace(key, ClassOf(val.get<std::string>()));
  }
  json astOk = json::object();
  const json p_asts = spec.value("asts", json::object());
  for (const auto& [key, val] : p_asts.items()) {
    Parser parser{};
    ctx.asts.erase(key);
    if (parser.Parse(val.get<std::string>(), Syntax::MATH)) {
      ctx.asts.emplace(key, parser.ExtractAST());
      astOk[key] = true;
    } else {
      astOk[key] = false;
    }
  }
  return json{ {"asts", astOk} };
}

DRV_OP(OpRsCheck, "rs.check") {
  const auto cname = a.at("ctx").get<std::string>();
  auto& ctx = *Contexts().at(cname);
  const auto text = drv::GetBytes(a, "text");
  const auto syntax = drv::SyntaxOf(a);
  if (a.contains("obj")) {
    auto& slot = Objects()[cname + "/" + a["obj"].get<std::string>()];
    if (slot.auditor == nullptr) {
      slot.auditor = std::make_unique<Auditor>(ctx, ctx.ClassContext(), ctx.AstContext());
    }
    return CheckJ(*slot.auditor, text, syntax);
  }
  Auditor auditor{ ctx, ctx.ClassContext(), ctx.AstContext() };
  return CheckJ(auditor, text, syntax);
}

DRV_OP(OpRsEval, "rs.eval") {
  const auto cname = a.at("ctx").get<std::string>();
  auto& ctx = *Contexts().at(cname);
  const auto text = drv::GetBytes(a, "text");
  const auto syntax = drv::SyntaxOf(a);
  json out = json::object();
  if (a.contains("obj")) {
    auto& slot = Objects()[cname + "/" + a["obj"].get<std::string>()];
    if (slot.interpreter == nullptr) {
      slot.interpreter = std::make_unique<Interpreter>(ctx, ctx.AstContext(), ctx.DataCtx());
    }
    out = EvalJ(*slot.interpreter, text, syntax);
  } else {
    Interpreter interp{ ctx, ctx.AstContext(), ctx.DataCtx() };
    out = EvalJ(interp, text, syntax);
  }
  if (a.value("withtype", true)) {
    // reported type by an independent fresh auditor + the library's own conformance check of the value
    Auditor auditor{ ctx, ctx.ClassContext(), ctx.AstContext() };
    const bool ok = auditor.CheckType(text, syntax);
    out["type_ok"] = ok;
    if (ok) {
      out["type"] = drv::TypeJ(auditor.GetType());
      if (out.value("has", false) && out.contains("val") && std::holds_alternative<Typification>(auditor.GetType())) {
        Interpreter again{ ctx, ctx.AstContext(), ctx.DataCtx() };
        const auto value = again.Evaluate(text, syntax);
        if (value.has_value() && std::holds_alternative<StructuredData>(*value)) {
          out["lib_compatible"] = ccl::object::CheckCompatible(std::get<StructuredData>(*value), std::get<Typification>(auditor.GetType()));
        }
      }
    }
  }
  return out;
}

DRV_OP(OpRsStatic, "rs.static") {
  // static/shared generators: FromTree is covered by rs.parse; here StructureFor, CreatePrefix, CreateCall, type parsing
  json out = json::object();
  if (a.contains("structure")) {
    const auto type = drv::BuildType(a["structure"]);
    json items = json::array();
    for (const auto& [text, t] : Generator::StructureFor(a.value("name", std::string{ "S1" }), type)) {
      items.push_back(json::array({ drv::PutBytes(text), t.ToString() }));
    }
    out["structure"] = items;
  }
  if (a.contains("globaldef")) {
    out["globaldef"] = drv::PutBytes(Generator::GlobalDefinition(a.value("name", std::string{ "X1" }), drv::GetBytes(a, "globaldef"), a.value("struct", false)));
  }
  return out;
}
