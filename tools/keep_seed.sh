#!/bin/bash
# usage: tools/keep_seed.sh <agent out dir> <seed id e.g. C14-1> <property> "<needs>"
SRC=$(readlink -f "$1"); ID=$2; PROP=$3; NEEDS=$4
DST=/verif/seeded/$ID
/verif/tools/confirm_seed.sh $SRC > /tmp/keep_$ID.log 2>&1
LINE=$(tail -1 /tmp/keep_$ID.log)
echo "$LINE"
case "$LINE" in
  *"2 tests failed out of 135"*"demo_with_patch_rc="[1-9]*"demo_without_rc=0"*) ;;
  *) echo "NOT CONFIRMED: $ID"; exit 1;;
esac
mkdir -p $DST
cp $SRC/patch.rebased.diff $DST/patch.diff
cp $SRC/demo.cpp $SRC/run.sh $DST/
[ -f $SRC/notes.md ] && cp $SRC/notes.md $DST/notes.md
python3 - "$DST" "$PROP" "$NEEDS" "$LINE" <<'PY'
import json,sys,subprocess
dst,prop,needs,line=sys.argv[1:5]
head=subprocess.run(['git','-C','/repo','rev-parse','--short','HEAD'],capture_output=True,text=True).stdout.strip()
json.dump({'property':prop,'needs_to_manifest':needs,'origin':'fresh sub-agent given only the property text and a scratch worktree',
 'confirmed':{'against_repo_head':head,'how':'tools/confirm_seed.sh: patch applied in a scratch worktree; baseline suite (133 pass + 2 NOT_BUILT placeholders) unchanged; demo exits non-zero with the patch and 0 without','result':line},
 'detected_by':[]},open(dst+'/meta.json','w'),indent=1,ensure_ascii=False)
PY
