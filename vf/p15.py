"""C15 — structured data behaves as a finite-set algebra with value semantics."""
import itertools

from . import core
from . import sdmodel as sm

PROP = 'C15'
RULE = ('per case a pool of values of one typification (plus a pool of sets of that typification) is built through '
        'every Factory route (Set with shuffled order/duplicates in other representations, AddElement sequences, SetV, '
        'Singleton, lazy Boolean, lazy Decartian, enumerated twins of lazy values); monitors compare ==, !=, <, '
        'Compare, ToString, Cardinality, iteration (twice), Contains, IsSubsetOrEq, Union/Intersect/Diff/SymDiff, '
        'Projection (incl. repeated/permuted indices), Reduce, Debool, Singleton, Component with a Python '
        'frozenset/tuple/int model; strict-total-order axioms are checked on all pairs and triples of each pool; '
        'copy-then-AddElement sequences check that originals, copies and containing sets never change. Systematic: all '
        'values of the types X, B(X), X*X, BB(X), B(X*X) over a 2-element base, all ordered pairs. Distinct = hash of '
        'the pool construction recipes; non-trivial = pool has >=3 distinct values and the type is not a bare element.')
ASSUMPTIONS = [
    'the Python frozenset/tuple/int model and its powerset/product definitions',
    'AddElement on a lazy (power set / product) value is not judged for its effect on that value (the library '
    'refuses it); only that other values stay unchanged',
    'values are kept within the documented limits (power-set base <= 5 elements, products <= 60 tuples)',
]
EXHAUSTIVE = ['all values of X, B(X), X*X, BB(X), B(X*X) over base {1,2} and all ordered pairs of each']
MIN_JUDGED = {'quick': 20000, 'thorough': 500000}
NSH = 32


def j_of(model):
    return sm.enum_spec(model)


def pool_case(t, pool, sup_pool, rnd, tag):
    """pool: list of (model, spec) of type t; sup_pool: list of (model, spec) of type s(t)."""
    ops = [{'op': 'sd.clear'}]
    plan = [['clear']]
    for i, (_m, spec) in enumerate(pool):
        ops.append({'op': 'sd.build', 'name': f'v{i}', 'spec': spec})
        plan.append(['build', 'v', i])
    for i, (_m, spec) in enumerate(sup_pool):
        ops.append({'op': 'sd.build', 'name': f'w{i}', 'spec': spec})
        plan.append(['build', 'w', i])
    for i in range(len(pool)):
        ops.append({'op': 'sd.obs', 'name': f'v{i}'})
        plan.append(['obs', 'v', i])
    is_set = t[0] == 's'
    for i in range(len(pool)):
        for j in range(len(pool)):
            ops.append({'op': 'sd.rel', 'a': f'v{i}', 'b': f'v{j}', 'sets': is_set})
            plan.append(['rel', i, j])
    for i in range(len(pool)):
        for j in range(len(sup_pool)):
            ops.append({'op': 'sd.rel', 'a': f'v{i}', 'b': f'w{j}', 'member': True})
            plan.append(['mem', i, j])
    # unary operations
    for i, (m, _s) in enumerate(pool):
        u = {'op': 'sd.unary', 'name': f'v{i}', 'single': True}
        if t[0] == 't':
            u['comp'] = rnd.randint(1, len(t[1]))
        if is_set and t[1][0] == 't':
            ar = len(t[1][1])
            k = rnd.choice([1, 2, 2, 3])
            u['proj'] = [rnd.randint(1, ar) for _ in range(k)]
        if is_set and t[1][0] == 's':
            u['reduce'] = True
        if is_set and len(m) == 1:
            u['debool'] = True
        ops.append(u)
        plan.append(['unary', i])
    # value semantics
    if is_set:
        g = sm.Gen(rnd)
        for i, (m, _s) in enumerate(pool[:4]):
            e1, s1 = g.value(t[1])
            e2, s2 = g.value(t[1])
            ops += [{'op': 'sd.copy', 'to': 'c', 'from': f'v{i}'},
                    {'op': 'sd.build', 'name': 'z', 'spec': {'s': [{'ref': f'v{i}'}]}},
                    {'op': 'sd.add', 'name': 'c', 'elem': s1},
                    {'op': 'sd.obs', 'name': f'v{i}'},
                    {'op': 'sd.add', 'name': f'v{i}', 'elem': s2},
                    {'op': 'sd.obs', 'name': 'c'},
                    {'op': 'sd.obs', 'name': 'z'}]
            plan += [['copy'], ['buildz', i], ['addc', i, j_of(e1)], ['obs_orig', i], ['addv', i, j_of(e2)],
                     ['obs_c', i, j_of(e1)], ['obs_z', i]]
    meta = {'kind': 'pool', 'type': sm.type_str(t), 't': t, 'models': [j_of(m) for m, _ in pool],
            'sup': [j_of(m) for m, _ in sup_pool], 'plan': plan, 'tag': tag}
    return core.case(ops, **meta)


def to_t(t):
    # JSON round trip turns tuples into lists
    if t[0] == 'e':
        return ('e', t[1])
    if t[0] == 's':
        return ('s', to_t(t[1]))
    return ('t', tuple(to_t(c) for c in t[1]))


def judge(res, cs, cr):
    if not core.std_death_checks(res, PROP, cs, cr):
        return
    meta = cs['meta']
    t = to_t(meta['t'])
    models = [sm.from_obs(j) for j in meta['models']]
    sup = [sm.from_obs(j) for j in meta['sup']]
    n = len(models)
    lt = [[None] * n for _ in range(n)]
    eqm = [[None] * n for _ in range(n)]
    bad = []

    def viol(what, msg):
        bad.append((what, msg))

    def obs_model(ev_val, what):
        dups = []
        try:
            v = sm.from_obs(ev_val, dups)
        except ValueError:
            res.count('inconclusive')
            return None
        if dups:
            viol('iteration-duplicates', f'{what}: iteration yielded an element twice: {sm.render(ev_val)}')
        return v

    is_set = t[0] == 's'
    for op, ev, step in zip(cs['ops'], cr.events, meta['plan']):
        k = step[0]
        res.cover('op:' + op['op'])
        if k == 'build':
            m = models[step[2]] if step[1] == 'v' else sup[step[2]]
            got = obs_model(ev['val'], 'build')
            spec_kind = next(iter(op['spec'])) if isinstance(op['spec'], dict) else 'v'
            res.cover('route:' + spec_kind)
            if got is not None and got != m:
                viol(f'build:{spec_kind}', f"built {op['spec']} -> {sm.render(ev['val'])} expected {sm.show(m)}")
            if ev['str'] != sm.render(ev['val']):
                viol('tostring', f"ToString {ev['str']!r} differs from iteration {sm.render(ev['val'])!r}")
            if isinstance(m, frozenset):
                if ev.get('card') != len(m) or ev.get('isempty') != (len(m) == 0):
                    viol('cardinality', f"Cardinality {ev.get('card')} / IsEmpty {ev.get('isempty')} expected {len(m)} for {sm.show(m)} built by {op['spec']}")
            res.count('judged', 3)
        elif k == 'obs':
            m = models[step[2]]
            got = obs_model(ev['val'], 'obs')
            if got is not None and got != m:
                viol('observe-later', f"value changed after later constructions: {sm.render(ev['val'])} expected {sm.show(m)}")
            if isinstance(m, frozenset) and ev.get('itercount') != len(m):
                viol('iteration-count', f"second iteration pass visited {ev.get('itercount')} elements expected {len(m)}")
            res.count('judged', 2)
        elif k == 'rel':
            i, j = step[1], step[2]
            a, b = models[i], models[j]
            e = a == b
            if ev['eq'] != e or ev['ne'] != (not e):
                viol('equality', f"{sm.show(a)} == {sm.show(b)} -> {ev['eq']} (!= {ev['ne']}) expected {e}; recipes {cs['ops'][1 + i]['spec']} / {cs['ops'][1 + j]['spec']}")
            lt[i][j] = ev['lt']
            eqm[i][j] = ev['eq']
            if ev['lt'] != (ev['cmp'] == 'LESS') or ev['gt'] != (ev['cmp'] == 'GREATER') or ev['eq'] != (ev['cmp'] == 'EQUAL'):
                viol('compare-consistency', f"Compare={ev['cmp']} lt={ev['lt']} gt={ev['gt']} eq={ev['eq']} on {sm.show(a)} , {sm.show(b)}")
            if [ev['lt'], ev['gt'], e].count(True) != 1:
                viol('order-trichotomy', f"lt={ev['lt']} gt={ev['gt']} equal={e} on {sm.show(a)} , {sm.show(b)}; recipes {cs['ops'][1 + i]['spec']} / {cs['ops'][1 + j]['spec']}")
            res.count('judged', 4)
            if is_set:
                exp = {'subset': a <= b, 'union': a | b, 'inter': a & b, 'diff': a - b, 'symdiff': a ^ b}
                for key, val in exp.items():
                    got = ev[key] if key == 'subset' else obs_model(ev[key], key)
                    if got is not None and got != val:
                        viol(key, f"{key}({sm.show(a)}, {sm.show(b)}) -> {got if key == 'subset' else sm.render(ev[key])} expected {val if key == 'subset' else sm.show(val)}")
                res.count('judged', 5)
        elif k == 'mem':
            i, j = step[1], step[2]
            exp = models[i] in sup[j]
            if ev['contains'] != exp:
                viol('contains', f"Contains({sm.show(models[i])}) in {sm.show(sup[j])} -> {ev['contains']} expected {exp}; set recipe {cs['ops'][1 + n + j]['spec']}")
            res.count('judged')
        elif k == 'unary':
            m = models[step[1]]
            if 'single' in ev:
                got = obs_model(ev['single'], 'singleton')
                if got is not None and got != frozenset([m]):
                    viol('singleton', f"Singleton({sm.show(m)}) -> {sm.render(ev['single'])}")
            if 'comp' in ev:
                got = obs_model(ev['comp'], 'component')
                if got != m[op['comp'] - 1] or ev['arity'] != len(m):
                    viol('component', f"Component({op['comp']}) of {sm.show(m)} -> {sm.render(ev['comp'])}")
            if 'proj' in ev:
                idx = op['proj']
                if len(idx) == 1:
                    exp = frozenset(x[idx[0] - 1] for x in m)
                else:
                    exp = frozenset(tuple(x[i - 1] for i in idx) for x in m)
                got = obs_model(ev['proj'], 'projection')
                if got is not None and got != exp:
                    viol('projection', f"Projection{idx}({sm.show(m)}) -> {sm.render(ev['proj'])} expected {sm.show(exp)}; recipe {cs['ops'][1 + step[1]]['spec']}")
            if 'reduce' in ev:
                exp = frozenset().union(*m) if m else frozenset()
                got = obs_model(ev['reduce'], 'reduce')
                if got is not None and got != exp:
                    viol('reduce', f"Reduce({sm.show(m)}) -> {sm.render(ev['reduce'])} expected {sm.show(exp)}")
            if 'debool' in ev:
                got = obs_model(ev['debool'], 'debool')
                if got is not None and got != next(iter(m)):
                    viol('debool', f"Debool({sm.show(m)}) -> {sm.render(ev['debool'])}")
            res.count('judged', len(ev))
        elif k == 'addc':
            m = models[step[1]]
            e1 = sm.from_obs(step[2])
            lazy = isinstance(cs['ops'][1 + step[1]]['spec'], dict) and next(iter(cs['ops'][1 + step[1]]['spec'])) in ('bool', 'dec')
            if not lazy:
                got = obs_model(ev['val'], 'add')
                if ev['ret'] != (e1 not in m) or (got is not None and got != m | {e1}):
                    viol('addelement', f"copy of {sm.show(m)} AddElement({sm.show(e1)}) -> ret {ev['ret']} value {sm.render(ev['val'])}")
            else:
                res.count('unspecified')
            res.count('judged')
        elif k == 'obs_orig':
            m = models[step[1]]
            got = obs_model(ev['val'], 'orig')
            if got is not None and got != m:
                viol('value-semantics', f"original {sm.show(m)} changed to {sm.render(ev['val'])} after AddElement on its copy; recipe {cs['ops'][1 + step[1]]['spec']}")
            res.count('judged')
        elif k == 'obs_c':
            m = models[step[1]]
            e1 = sm.from_obs(step[2])
            lazy = isinstance(cs['ops'][1 + step[1]]['spec'], dict) and next(iter(cs['ops'][1 + step[1]]['spec'])) in ('bool', 'dec')
            got = obs_model(ev['val'], 'copy')
            exp = m if lazy else m | {e1}
            if got is not None and got != exp and not (lazy and got == m | {e1}):
                viol('value-semantics', f"copy changed to {sm.render(ev['val'])} after AddElement on the original (expected {sm.show(exp)})")
            res.count('judged')
        elif k == 'obs_z':
            m = models[step[1]]
            got = obs_model(ev['val'], 'container')
            if got is not None and got != frozenset([m]):
                viol('value-semantics', f"set containing {sm.show(m)} changed to {sm.render(ev['val'])} after AddElement on the element's source")
            res.count('judged')
    # order axioms on the pool (real answers only)
    for i in range(n):
        if lt[i][i]:
            viol('order-irreflexive', f'{sm.show(models[i])} < itself')
    for i, j, k in itertools.product(range(n), repeat=3):
        if lt[i][j] and lt[j][k] and not lt[i][k]:
            viol('order-transitive', f'{sm.show(models[i])} < {sm.show(models[j])} < {sm.show(models[k])} but not first < third')
            break
    # the order must be consistent with equality: equal values are interchangeable in every comparison
    for i, j in itertools.product(range(n), repeat=2):
        if models[i] == models[j] and i < j and None not in lt[i] and None not in lt[j]:
            for k in range(n):
                if lt[i][k] != lt[j][k] or lt[k][i] != lt[k][j]:
                    viol('order-vs-equality', f'{sm.show(models[i])} built as {cs["ops"][1 + i]["spec"]} and as {cs["ops"][1 + j]["spec"]} '
                                              f'compare differently against {sm.show(models[k])} built as {cs["ops"][1 + k]["spec"]}')
                    break
    res.count('judged', n * n * n)
    seen = set()
    for what, msg in bad:
        if what in seen:
            continue
        seen.add(what)
        res.violation(f'{PROP}/sd/{what}', f"type {meta['type']}: {msg}", cs)
    distinct_models = len(set(models))
    res.judged(repr([op.get('spec') for op in cs['ops'][1:1 + n]]), nontrivial=distinct_models >= 3 and t[0] != 'e')
    res.count('pools')
    res.count('values_built', n + len(sup))
    res.cover('type-depth:%d' % sm.type_depth(t))
    if distinct_models >= 3 and t[0] == 's':
        res.sample({'type': meta['type'], 'recipes': [op['spec'] for op in cs['ops'][1:1 + min(n, 4)]],
                    'values': [sm.show(m) for m in models[:4]], 'ops': len(cs['ops'])}, limit=1)


def gen_cases(desc, env):
    cases = []
    kind, idx = desc['kind'], desc['i']
    if kind == 'systematic':
        E = sm.E
        types = [E, ('s', E), ('t', (E, E)), ('s', ('s', E)), ('s', ('t', (E, E)))]
        rnd = env.rng('sys', idx)
        n = 0
        for t in types:
            vals = sm.all_values(t, [1, 2])
            # chunks of 8 values x all chunks of 8 (pairs across chunks are covered by pairing chunks)
            chunks = [vals[i:i + 4] for i in range(0, len(vals), 4)]
            for ca, cb in itertools.combinations_with_replacement(range(len(chunks)), 2):
                if n % NSH == idx:
                    pool = chunks[ca] + (chunks[cb] if cb != ca else [])
                    g = sm.Gen(rnd)
                    items = [(m, sm.enum_spec(m, rnd)) for m in pool]
                    supt = ('s', t)
                    sup_items = [g.value(supt) for _ in range(2)]
                    sup_items.append((frozenset(pool[:2]), sm.enum_spec(frozenset(pool[:2]), rnd)))
                    cases.append(pool_case(t, items, sup_items, rnd, 'systematic'))
                n += 1
    else:
        rnd = env.rng('rnd', idx)
        count = 150 if env.tier == 'quick' else 3000
        for _ in range(count):
            g = sm.Gen(rnd, base=rnd.choice([(1, 2, 3), (1, 2), (5, 1, 9, 3)]), lazy=rnd.choice([0.2, 0.5, 0.8]))
            t = g.rand_type(rnd.choice([1, 2, 2, 3, 3]), top_set=rnd.random() < 0.8)
            k = rnd.randint(3, 6)
            pool = []
            for _ in range(k):
                m, s = g.value(t)
                pool.append((m, s))
                if isinstance(s, dict) and next(iter(s)) in ('bool', 'dec') and rnd.random() < 0.7:
                    pool.append((m, sm.enum_spec(m, rnd)))     # enumerated twin of a lazy value
                elif rnd.random() < 0.15:
                    pool.append((m, sm.enum_spec(m, rnd)))
            # near-twins: same shape products / sets differing in one or two elements
            if t[0] == 's' and pool and rnd.random() < 0.7:
                m0 = rnd.choice(pool)[0]
                if m0:
                    m1 = set(m0)
                    m1.discard(rnd.choice(sorted(m0, key=sm.sort_key)))
                    e, _ = g.value(t[1])
                    m1.add(e)
                    pool.append((frozenset(m1), sm.enum_spec(frozenset(m1), rnd)))
            pool = pool[:9]
            supt = ('s', t)
            sup_pool = [g.value(supt) for _ in range(2)]
            # a set of sets holding pool members in mixed representations (ordering inside sets is exercised)
            picks = [rnd.choice(pool) for _ in range(rnd.randint(2, 5))]
            sup_pool.append((frozenset(p[0] for p in picks), {'s': [p[1] for p in picks]}))
            sup_pool.append((frozenset(p[0] for p in picks), {'add': [p[1] for p in reversed(picks)]}))
            cases.append(pool_case(t, pool, sup_pool, rnd, 'random'))
    return cases


def shards(tier, seed):
    return [{'kind': 'systematic', 'i': i} for i in range(NSH)] + [{'kind': 'random', 'i': i} for i in range(NSH)] + [{'kind': 'huge', 'i': 0}]


SET_INFINITY = 0x0FFFFFFF


def huge_cases(tier):
    """lazy products of lazy power sets whose true size runs from small to far beyond 2^31 (never enumerated)"""
    combos = [[a, b] for a in range(1, 17) for b in range(1, 17)]
    combos += [[a, b, c] for a in (1, 4, 8, 9, 10, 11, 12) for b in (1, 8, 10, 11) for c in (1, 9, 10, 11, 12)]
    if tier != 'quick':
        combos += [[a, b, c, d] for a in (5, 7, 8) for b in (6, 8) for c in (7, 8) for d in (1, 7, 8, 9)]
    return [core.case([{'op': 'sd.huge', 'bases': c}], kind='huge', bases=c) for c in combos]


def lazy2_cases(tier):
    """lazy sets of a few hundred up to 2^17 elements traversed twice (second pass after a complete or an interrupted first one)"""
    out = []
    for k in ((8, 9, 10) if tier == 'quick' else (8, 9, 10, 11, 12, 13)):
        out.append({'bool': k})
    out.append({'bool': 17, 'stop_first': 65536})
    out.append({'bool': 17})
    for a, b in ((17, 17), (18, 16), (20, 15), (23, 23), (3, 100), (100, 3), (30, 10), (16, 16), (1, 300), (300, 1)):
        out.append({'dec': [a, b]})
        out.append({'dec': [a, b], 'stop_first': 256})
        out.append({'dec': [a, b], 'stop_first': 100})
    out.append({'dec': [7, 7, 7]})
    out.append({'dec': [40, 41, 42], 'stop_first': 65600})
    return [core.case([dict({'op': 'sd.lazy2'}, **c)], kind='lazy2', spec=c) for c in out]


def judge_lazy2(res, cs, cr):
    if not core.std_death_checks(res, PROP, cs, cr):
        return
    ev = cr.events[0]
    spec = cs['meta']['spec']
    first, second = ev['passes']
    bad = []
    if second['count'] != ev['card']:
        bad.append(('lazy-iteration-count', f"second traversal yields {second['count']} elements, cardinality {ev['card']}"))
    if 'stop_first' not in spec and first['count'] != ev['card']:
        bad.append(('lazy-iteration-count', f"first traversal yields {first['count']} elements, cardinality {ev['card']}"))
    if not first['ordered'] or not second['ordered']:
        bad.append(('lazy-iteration-order', f"traversal is not strictly increasing (first pass {first['ordered']}, second pass {second['ordered']})"))
    for pos, text in first['marks'].items():
        if second['marks'].get(pos) != text:
            bad.append(('lazy-iteration-repeat', f"element #{pos} is {text} in the first traversal and {second['marks'].get(pos)} in the second"))
            break
    if 'stop_first' not in spec and first['hash'] != second['hash']:
        bad.append(('lazy-iteration-repeat', 'the two traversals yield different sequences'))
    res.count('judged', 6)
    res.cover('lazy2:' + ('interrupted-first-pass' if 'stop_first' in spec else 'two-full-passes'))
    for what, msg in bad[:1]:
        res.violation(f'{PROP}/sd/{what}', f'lazy set {spec}: {msg}', cs)
    res.judged(repr(('lazy2', sorted(spec.items()))), nontrivial=True)
    res.counters['judged'] -= 1


def judge_huge(res, cs, cr):
    if not core.std_death_checks(res, PROP, cs, cr):
        return
    ev = cr.events[0]
    bases = cs['meta']['bases']
    true_size = 1
    for k in bases:
        true_size *= 2 ** k
    bad = []
    card = ev['card']
    if true_size >= SET_INFINITY:
        if card != SET_INFINITY:
            bad.append(('huge-cardinality', f'cardinality {card}, the true size {true_size} is beyond the documented maximum {SET_INFINITY} (saturation expected)'))
    elif true_size * 2 <= SET_INFINITY:
        if card != true_size:
            bad.append(('huge-cardinality', f'cardinality {card}, true size {true_size}'))
    elif card not in (true_size, SET_INFINITY):
        bad.append(('huge-cardinality', f'cardinality {card}, true size {true_size} (or saturation {SET_INFINITY})'))
    for k, want in (('isempty', False), ('eq_empty', False), ('lt_empty', False), ('contains_least', True), ('contains_greatest', True), ('single_subset', True)):
        if ev[k] is not want:
            bad.append((f'huge-{k}', f'{k} = {ev[k]} for a product of power sets of true size {true_size}'))
    if true_size > 1 and (ev['lt_single'] or not ev['single_lt']):
        bad.append(('huge-order', f"a set of true size {true_size} is not ordered after its one-element subset (lt_single={ev['lt_single']}, single_lt={ev['single_lt']})"))
    if ev['first_elements'] < min(3, true_size):
        bad.append(('huge-iteration', f"iteration yields {ev['first_elements']} elements, true size {true_size}"))
    res.count('judged', 10)
    res.cover('huge:saturated' if true_size >= SET_INFINITY else 'huge:exact')
    for what, msg in bad[:1]:
        res.violation(f'{PROP}/sd/{what}', f'ℬ-factors over {bases}-element bases: {msg}', cs)
    res.judged(repr(('huge', bases)), nontrivial=True)
    res.counters['judged'] -= 1


def run_shard(desc, env):
    res = core.ShardResult()
    if desc['kind'] == 'huge':
        for cs, cr in env.execute(huge_cases(env.tier), chunk=100):
            judge_huge(res, cs, cr)
        for cs, cr in env.execute(lazy2_cases(env.tier), chunk=5):
            judge_lazy2(res, cs, cr)
        return res
    for cs, cr in env.execute(gen_cases(desc, env), chunk=50):
        judge(res, cs, cr)
    return res


def replay(cs, env):
    res = core.ShardResult()
    for c, cr in env.execute([cs]):
        {'huge': judge_huge, 'lazy2': judge_lazy2}.get(c['meta'].get('kind'), judge)(res, c, cr)
    return res
