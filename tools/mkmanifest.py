#!/usr/bin/env python3
"""Regenerates /verif/MANIFEST.json from the table below (keeps it schema-valid)."""
import json
import os
import subprocess

VERIF = os.path.dirname(os.path.dirname(os.path.abspath(__file__)))

BASELINE_OFF = ('cmake -G Ninja -B /repo/_build -S /repo/ccl -DCMAKE_BUILD_TYPE=RelWithDebInfo >/dev/null && '
                'cmake --build /repo/_build --target cclCommons_Tests cclGraph_Tests cclLang_Tests && '
                'ctest --test-dir /repo/_build -j8 --timeout 900')

CHECKS = {}


def chk(pid, text, note, technique, design_ref):
    CHECKS[pid] = dict(text=text, note=note, technique=technique, design_ref=design_ref)


NOT_APPLICABLE = {}

exec(open(os.path.join(VERIF, 'tools', 'manifest_table.py')).read())


def main():
    props = [json.loads(l)['id'] for l in open(os.path.join(VERIF, 'properties.jsonl'))]
    hooks_commits = []
    try:
        out = subprocess.run(['git', '-C', '/repo', 'log', '--format=%h %s'], capture_output=True, text=True).stdout
        for line in out.splitlines():
            h, _, subj = line.partition(' ')
            if subj.startswith('verif-hook:'):
                hooks_commits.append(h)
    except Exception:
        pass
    man = {
        'version': 1,
        'setup_cmd': 'python3 tools/build.py san >/dev/null',
        'hooks': {
            'guard': 'CCL_VERIF',
            'enable': 'tools/build.py compiles every library source of /repo\'s working tree with -DCCL_VERIF '
                      '(g++ -std=c++20 -O1 -g1 -fsanitize=address,undefined -fno-sanitize-recover=all '
                      '-D_GLIBCXX_ASSERTIONS -DNDEBUG) and links the JSON-lines driver /verif/driver/*.cpp against it',
            'baseline_off_cmd': BASELINE_OFF,
            'source_commits': hooks_commits,
            'add_only': True,
        },
        'engines': [{
            'name': 'ccdrive+vf',
            'path': 'check',
            'serves_properties': [p for p in props if p in CHECKS],
            'kind_free_text': 'runtime monitoring: real library built with ASan+UBSan+_GLIBCXX_ASSERTIONS, driven by '
                              'generated workloads through a JSON-lines driver; Python monitors (reference models, '
                              'differential and invariant oracles) judge the recorded events',
        }],
        'checks': [],
        'notes': 'All checks: ./check <id> [--tier quick|thorough] [--replay file]; VERIF_SEED selects the random part. '
                 'Exit 0 held on everything explored, 1 + VIOLATION line, 2 harness failure/inconclusive. '
                 'Known findings: known_findings.json (exact key match).',
        'not_applicable': [{'property_id': p, 'reason': r} for p, r in sorted(NOT_APPLICABLE.items())],
    }
    for p in props:
        if p not in CHECKS:
            continue
        c = CHECKS[p]
        man['checks'].append({
            'property_id': p,
            'quick_cmd': f'./check {p} --tier quick',
            'thorough_cmd': f'./check {p} --tier thorough',
            'evidence_file': f'/verif/evidence/{p}.json',
            'replay_cmd_template': f'./check {p} --replay {{path}}',
            'engine': 'ccdrive+vf',
            'level_claimed': {'category': 'exploration', 'text': c['text'], 'design_ref': c['design_ref']},
            'level_note': c['note'],
            'technique': c['technique'],
        })
    with open(os.path.join(VERIF, 'MANIFEST.json'), 'w') as f:
        json.dump(man, f, ensure_ascii=False, indent=1)
        f.write('\n')
    try:
        import jsonschema
        jsonschema.validate(man, json.load(open('/root/.vp/MANIFEST.schema.json')))
        print('MANIFEST.json valid;', len(man['checks']), 'checks;', len(man['not_applicable']), 'not applicable')
    except ImportError:
        print('MANIFEST.json written (jsonschema not importable here)')


main()
