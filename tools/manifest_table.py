# Table of claimed checks (exec'd by mkmanifest.py). Properties not yet claimed are listed as not applicable
# with the reason "not built yet" until their check exists.

chk('C20',
    'Runtime monitoring with a reference model: every function of Strings.hpp is executed on the sanitizer build for '
    'all strings up to 4 (quick) / 6 (thorough) code points over an alphabet with 1-4 byte characters, all in/out-of-'
    'bounds code-point ranges and all range pairs of a window, and each return value is compared with Python '
    'str/bytes semantics and the end-point definitions of the interval relations. Exhaustive on those finite '
    'sub-spaces, sampled beyond; held-on-what-was-observed, not a proof.',
    'Trusted: the Python reference (str/bytes, end-point definitions), the driver. Overlaps with an empty operand is '
    'not judged.',
    'sanitizer build + reference-model monitor over exhaustive small inputs', 'DESIGN.md 4 C20')

chk('C14',
    'Runtime monitoring of mutation histories: after every mutation of a CGraph/UpdatableGraph every public query is '
    'recorded over the whole uid universe and compared with a set-of-edges model (BFS closures, Tarjan SCCs). All '
    '3-vertex digraphs in all edge orders and all short histories are enumerated; long histories are random.',
    'Trusted: the Python graph model. IsReachableFrom(x,x) for x on a longer cycle is not judged.',
    'sanitizer build + executable-model monitor over operation histories', 'DESIGN.md 4 C14')

for _p in ['C01', 'C02', 'C03', 'C04', 'C05', 'C06', 'C07', 'C08', 'C09', 'C10', 'C11', 'C12', 'C13', 'C15', 'C16',
           'C17', 'C18', 'C19']:
    if _p not in CHECKS:
        NOT_APPLICABLE[_p] = 'check not built yet (work in progress); runtime monitoring is planned per DESIGN.md section 4'
