"""Reference model of the RSLang MATH lexical grammar (token boundaries only), written from the grammar description:
longest match, ties broken by rule order.  Used by C08 (identifier translation) as an independent reading of
"whole-identifier occurrence"."""
import re

ALNUM = r'[_0-9A-Za-zα-ω]'
INDEX = r'[0-9]+(?:,[0-9]+)*'
RULES = [
    ('OP', r'[+\-*><≥≤=≠∀∃¬&∨⇒⇔]'),
    ('ITERATE', r':∈'),
    ('OP', r'[∈∉⊆⊂⊄×∪∩\\∆ℬ]'),
    ('SMALLPR', r'pr' + INDEX),
    ('BIGPR', r'Pr' + INDEX),
    ('FILTER', r'Fi' + INDEX),
    ('KW', r'card'), ('KW', r'bool'), ('KW', r'red'), ('KW', r'debool'),
    ('KW', r'D'), ('KW', r'R'), ('KW', r'I'), ('KW', r'Z'),
    ('OP', r'∅'),
    ('INT', r'[0-9]+'),
    ('ID_FUNCTION', r'F[0-9]+'),
    ('ID_PREDICATE', r'P[0-9]+'),
    ('ID_RADICAL', r'R[0-9]+'),
    ('ID_GLOBAL', r'[AC-Z]' + ALNUM + '*'),
    ('ID_LOCAL', r'[_a-zα-ω]' + ALNUM + '*'),
    ('PUNC', r':=='), ('PUNC', r':='), ('PUNC', r'::='),
    ('PUNC', r'[(){}\[\]|,;]'),
    ('NL', r'\n'),
    ('WS', r'[ \t]+'),
    ('INTERRUPT', r'[^\n]'),
]
COMPILED = [(name, re.compile(rx)) for name, rx in RULES]
GLOBALS = ('ID_GLOBAL', 'ID_FUNCTION', 'ID_PREDICATE')
IDENTIFIERS = GLOBALS + ('ID_LOCAL',)


def tokens(text):
    """[(kind, start, end)] in code points"""
    out = []
    pos = 0
    n = len(text)
    while pos < n:
        best = None
        for name, rx in COMPILED:
            m = rx.match(text, pos)
            if m and m.end() > pos and (best is None or m.end() > best[2]):
                best = (name, pos, m.end())
        if best is None:       # cannot happen: NL / INTERRUPT cover every code point
            best = ('INTERRUPT', pos, pos + 1)
        out.append(best)
        pos = best[2]
    return out


def translate(text, mapping, kinds=GLOBALS):
    """(new text, number of replacements): simultaneous whole-token substitution"""
    out = []
    count = 0
    for kind, a, b in tokens(text):
        piece = text[a:b]
        if kind in kinds and piece in mapping and mapping[piece] != piece:
            out.append(mapping[piece])
            count += 1
        else:
            out.append(piece)
    return ''.join(out), count


def mentioned(text, kinds=GLOBALS):
    return {text[a:b] for kind, a, b in tokens(text) if kind in kinds}
