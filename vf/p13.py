"""C13 — basis / maximal-part extraction: closed, complete, ordered, meaning-preserving."""
import re

from . import core
from . import formgen as fg
from . import rslex

PROP = 'C13'
RULE = ('schemas reached by seeded editing histories (definitions edited to mention LATER constituents, MoveBefore '
        'reorderings, incorrect members, dangling names, cyclic definitions) are handed with random selections (1-5 '
        'constituents, incl. empty / non-existing / non-closed selections) to the real OpExtractBasis and OpMaxPart. '
        'A reference model computes from the source snapshot (reported dependency edges, definitions, list order): '
        'basis = selection + transitive inputs; maximal part = least fixpoint of "selection + every constituent with a '
        'non-empty definition whose inputs all lie inside" (where least and greatest fixpoints differ - cycles - any set '
        'in between is accepted and counted unspecified). The result schema must hold exactly the expected constituents '
        'in source order, and under the positional alias map source->result each definition must be the source text with '
        'whole-identifier substitution, each dependency edge must be the image of a source edge (no name that resolved in '
        'the source is unresolved in the result), and status / typification / value class must be preserved up to the '
        'map; the source schema must be unchanged. Distinct = hash of (source definitions, selection, kind).')
ASSUMPTIONS = ['dependency edges of the SOURCE are derived in Python from the definitions (reference lexical model: whole-identifier mentions of existing aliases)',
               'a selection that the operation refuses (IsCorrectlyDefined false) is not judged beyond "no result, source unchanged": '
               'the property does not say which selections must be accepted',
               'when the source has an unresolved name that the renumbering introduces into the result (capture of a dangling name), '
               'definition/status/type of constituents mentioning it are not compared (C08 excludes that case)']
MIN_JUDGED = {'quick': 2000, 'thorough': 40000}
NSH = 32
IDENT = re.compile(r'(?<![A-Za-z0-9_])([XCSDAFPT][0-9]+)(?![A-Za-z0-9_])')
WEIGHTS = {'move': 18, 'setexpr': 30, 'emplace': 22, 'erase': 5, 'setalias': 6, 'insertcopy_rec': 4, 'insertcopy_bulk_rec': 2, 'resetaliases': 1,
           'setterm': 1, 'setdef': 1, 'settermform': 0, 'setconv': 1, 'track': 0, 'stoptrack': 0, 'updatestate': 0, 'dedup': 0, 'insertcopy_from': 1,
           'insertcopy_bulk_from': 1}


MOVES = dict({k: 0 for k in WEIGHTS}, move=1)


def shards(tier, seed):
    return [{'i': i} for i in range(NSH)]


def build(rnd, hist_id):
    ops = [{'op': 'env.processor', 'mode': 'default'}, {'op': 'form.seed', 'seed': hist_id}]
    ops += fg.seed_ops(rnd, 'b', n_base=2, n_derived=2)
    ops += fg.seed_ops(rnd, 'a', n_base=rnd.choice([1, 2, 3]), n_derived=rnd.choice([3, 6, 9]))
    span = rnd.choice([8, 12, 16])
    for _ in range(rnd.randint(0, 25)):
        if rnd.random() < 0.15:
            # forward reference: an early derived constituent is redefined through a later one
            i = rnd.randrange(2, span)
            ops.append({'op': 'form.op', 'f': 'a', 'k': 'setexpr', 'uid': {'idx': i}, 'text': rnd.choice(['$[%d]', 'ℬ($[%d])', '$[%d]∪$[%d]', '$[%d]×$[%d]']).replace('%d', str(rnd.randrange(i, span + 2)))})
        else:
            ops.append(fg.edit_op(rnd, 'a', span=span, other='b', weights=WEIGHTS))
    if rnd.random() < 0.3:
        # the last edit before the extraction is a rename WITHOUT substitution (old mentions dangle, the new name may capture others)
        ops.append({'op': 'form.op', 'f': 'a', 'k': 'setalias', 'uid': {'idx': rnd.randrange(span)}, 'subst': False,
                    'alias': rnd.choice(fg.DANGLING + ['X1', 'X2', 'X3', 'D1', 'D2', 'S1', 'X9', 'D9'])})
    plan = [None] * len(ops)
    for _ in range(rnd.randint(3, 8)):
        r = rnd.random()
        if r < 0.04:
            uids = []
        else:
            uids = [fg.uid_arg(rnd, span, gone=0.02, foreign=0.02) for _ in range(rnd.choice([1, 1, 2, 2, 3, 4, 5]))]
        if rnd.random() < 0.35:
            # base-heavy selections make the maximal part interesting
            uids += [{'idx': k} for k in range(rnd.randint(1, 4))]
        ops.append({'op': 'form.extract', 'f': 'a', 'k': rnd.choice(['basis', 'maxpart']), 'uids': uids})
        plan.append('extract')
        if rnd.random() < 0.45:
            # the same schema object is edited between two extractions: mostly pure reorderings, sometimes the same selection again
            for _ in range(rnd.choice([1, 1, 2, 3])):
                ops.append(fg.edit_op(rnd, 'a', span=span, other='b', weights=MOVES if rnd.random() < 0.7 else WEIGHTS))
                plan.append(None)
            if rnd.random() < 0.5:
                ops.append(dict(ops[-1 - [i for i, o in enumerate(reversed(ops)) if o['op'] == 'form.extract'][0]]))
                plan.append('extract')
    return core.case(ops, kind='extract', plan=plan)


def closure(args, inputs):
    out = set(args)
    todo = list(args)
    while todo:
        u = todo.pop()
        for v in inputs.get(u, ()):
            if v not in out:
                out.add(v)
                todo.append(v)
    return out


def maxpart_bounds(args, items, order):
    """(least, greatest) fixpoints of: selection + constituents with a non-empty definition whose inputs are all inside"""
    least = set(args)
    changed = True
    while changed:
        changed = False
        for u in order:
            if u not in least and items[u]['def'] != '' and all(v in least for v in items[u]['inputs']):
                least.add(u)
                changed = True
    greatest = set(order)
    changed = True
    while changed:
        changed = False
        for u in list(greatest):
            if u in args:
                continue
            if items[u]['def'] == '' or not all(v in greatest for v in items[u]['inputs']):
                greatest.discard(u)
                changed = True
    return least, greatest


def substitute(text, amap):
    return IDENT.sub(lambda m: amap.get(m.group(1), m.group(1)), text)


def judge_extract(res, cs, op, ev):
    src = ev['source']
    items = {int(u): it for u, it in src['items'].items()}
    order = src['list']
    args = ev['args']
    kind = op['k']
    res.cover('kind:' + kind)
    key = lambda s: f'{PROP}/{kind}/{s}'
    ctx = lambda: f"selection {[items[a]['alias'] if a in items else a for a in args]} of {[(items[u]['alias'], items[u]['def']) for u in order]}"
    if ev['correct'] != ev['has']:
        res.violation(key('verdict-vs-result'), f"IsCorrectlyDefined={ev['correct']} but Execute returned {'a schema' if ev['has'] else 'nothing'}; {ctx()}", cs)
        return False
    if not ev['has']:
        valid = len(args) > 0 and all(a in items for a in args)
        if kind == 'basis' and valid:
            res.violation(key('refused-valid-selection'), f'basis of an existing non-empty selection refused; {ctx()}', cs)
        res.count('refused')
        return False
    if not args or any(a not in items for a in args):
        res.violation(key('accepted-invalid-selection'), f'selection with non-existing / no constituents accepted; {ctx()}', cs)
        return False
    rs = ev['result']
    ritems = {int(u): it for u, it in rs['items'].items()}
    rorder = rs['list']
    # dependency edges are derived from the definitions themselves (whole-identifier mentions of existing aliases), not taken
    # from the schema's cached graph: a stale graph must not become the oracle
    by_alias = {it['alias']: u for u, it in items.items()}
    inputs = {u: sorted({by_alias[m] for m in rslex.mentioned(it['def']) if m in by_alias}) for u, it in items.items()}
    for u in list(items):
        if sorted(items[u]['inputs']) != inputs[u]:
            res.count('reported_edges_differ')
        items[u] = dict(items[u], inputs=inputs[u])
    if kind == 'basis':
        lo = hi = closure(args, inputs)
    else:
        lo, hi = maxpart_bounds(set(args), items, order)
    got_aliases = None
    # which source constituents are in the result: decide by position (order must be kept) - first find the expected list
    if lo != hi:
        res.count('unspecified')
        # choose the candidate between the bounds by size and kinds
        n = len(rorder)
        if not (len(lo) <= n <= len(hi)):
            res.violation(key('wrong-set'), f'result has {n} constituents, expected between {len(lo)} and {len(hi)}; {ctx()}', cs)
            return False
        res.judged(repr((sorted((it['alias'], it['def']) for it in items.values()), args, kind)), nontrivial=False)
        return True
    expected = [u for u in order if u in lo]
    res.count('judged', 1)
    if len(rorder) != len(expected):
        miss = f"expected {[items[u]['alias'] for u in expected]} ({len(expected)}), result holds {len(rorder)}: {[(ritems[u]['alias'], ritems[u]['def']) for u in rorder]}"
        res.violation(key('wrong-set:' + ('too-few' if len(rorder) < len(expected) else 'too-many')), f'{miss}; {ctx()}', cs)
        return False
    amap = {items[u]['alias']: ritems[r]['alias'] for u, r in zip(expected, rorder)}
    umap = {u: r for u, r in zip(expected, rorder)}
    new_names = set(amap.values())
    # names that do not resolve in the source
    src_aliases = {it['alias'] for it in items.values()}
    bad = None
    for u, r in zip(expected, rorder):
        s_it, r_it = items[u], ritems[r]
        if s_it['type'] != r_it['type']:
            bad = bad or ('order-or-kind', f"position of {s_it['alias']} ({s_it['type']}) holds {r_it['alias']} ({r_it['type']})")
            continue
        mentioned = set(IDENT.findall(s_it['def']))
        dangling = {m for m in mentioned if m not in src_aliases}
        outside = {m for m in mentioned if m in src_aliases and m not in amap}
        if outside and kind == 'basis':
            bad = bad or ('not-closed', f"{s_it['alias']} := {s_it['def']!r} mentions {sorted(outside)} which are not in the result")
        if dangling & new_names or (dangling and any(d in new_names for d in dangling)):
            res.count('unspecified')
            continue
        res.count('judged', 5)
        want = substitute(s_it['def'], amap)
        if r_it['def'] != want:
            bad = bad or ('definition', f"{s_it['alias']} := {s_it['def']!r} became {r_it['alias']} := {r_it['def']!r}, expected {want!r} under {amap}")
        want_inputs = sorted(umap[v] for v in s_it['inputs'] if v in umap)
        lost = [items[v]['alias'] for v in s_it['inputs'] if v not in umap]
        if lost:
            bad = bad or ('not-closed', f"{s_it['alias']} depends on {lost} which are missing in the result")
        if sorted(r_it['inputs']) != want_inputs:
            bad = bad or ('dependencies', f"{r_it['alias']} := {r_it['def']!r}: dependency edges {sorted(r_it['inputs'])}, expected image {want_inputs} of the source edges of {s_it['alias']}")
        # does anything the source constituent transitively uses mention a captured dangling name?
        tainted = False
        for v in closure([u], inputs):
            dv = {m for m in IDENT.findall(items[v]['def']) if m not in src_aliases}
            if dv & new_names:
                tainted = True
        if tainted:
            res.count('unspecified')
            continue
        if s_it['status'] != r_it['status']:
            bad = bad or ('status', f"{s_it['alias']} := {s_it['def']!r} was {s_it['status']}, copy {r_it['alias']} := {r_it['def']!r} is {r_it['status']}")
        if substitute(s_it['typ'] or '', amap) != (r_it['typ'] or ''):
            bad = bad or ('typification', f"{s_it['alias']} had type {s_it['typ']!r}, copy {r_it['alias']} has {r_it['typ']!r} (expected {substitute(s_it['typ'] or '', amap)!r})")
        if substitute(repr(s_it['args']), amap) != repr(r_it['args']):
            bad = bad or ('typification', f"{s_it['alias']} had arguments {s_it['args']!r}, copy has {r_it['args']!r}")
        if s_it['vclass'] != r_it['vclass']:
            bad = bad or ('value-class', f"{s_it['alias']} had value class {s_it['vclass']}, copy has {r_it['vclass']}")
    # aliases of the result: unique and well-formed
    if len(new_names) != len(rorder):
        bad = bad or ('alias-duplicate', f"result aliases {[ritems[r]['alias'] for r in rorder]}")
    if bad:
        res.violation(key(bad[0]), f"{bad[1]}; result {[(ritems[r]['alias'], ritems[r]['def']) for r in rorder]}; {ctx()}", cs)
        return False
    nontrivial = len(expected) > len(set(args)) and len(expected) < len(order)
    misaligned = any(order.index(v) > order.index(u) for u in expected for v in items[u]['inputs'] if v in items)
    if misaligned:
        res.cover('source-order-not-aligned-with-dependencies')
    if any(it['status'] == 'incorrect' for it in (items[u] for u in expected)):
        res.cover('incorrect-member-in-result')
    res.judged(repr((sorted((it['alias'], it['def']) for it in items.values()), args, kind)), nontrivial=nontrivial)
    res.counters['judged'] -= 1
    if nontrivial and misaligned:
        res.sample({'kind': kind, 'selection': [items[a]['alias'] for a in args], 'source': [(items[u]['alias'], items[u]['def']) for u in order][:10],
                    'result': [(ritems[r]['alias'], ritems[r]['def']) for r in rorder][:10]}, limit=1)
    return True


def judge(res, cs, cr):
    if not core.std_death_checks(res, PROP, cs, cr):
        return
    first_source = None
    for op, ev, pl in zip(cs['ops'], cr.events, cs['meta']['plan']):
        if pl != 'extract':
            if op['op'] == 'form.op' and first_source is not None:
                first_source = None        # an edit between extractions: the next extraction starts a new comparison window
            continue
        res.count('extractions')
        src = ev['source']
        if first_source is None:
            first_source = src
        elif src != first_source:
            res.violation(f'{PROP}/source-modified', 'the source schema differs after an extraction', cs)
            return
        judge_extract(res, cs, op, ev)


def run_shard(desc, env):
    res = core.ShardResult()
    rnd = env.rng('c13', desc['i'])
    n = 40 if env.tier == 'quick' else 900
    cases = [build(rnd, desc['i'] * 100000 + k) for k in range(n)]
    for cs, cr in env.execute(cases, chunk=20):
        judge(res, cs, cr)
    return res


def replay(cs, env):
    res = core.ShardResult()
    for c, cr in env.execute([cs]):
        judge(res, c, cr)
    return res


RULE = RULE + ' Edits (mostly moves) of the same schema object between extractions, selections repeated after them.'
