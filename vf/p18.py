"""C18 — reused analysers are history-independent."""
import json

from . import core
from . import evalcommon as ec
from . import rsgen as rg
from . import rstyped as ty
from . import rstypes as rt

PROP = 'C18'
RULE = ('sequences of 5-40 inputs are fed to ONE long-lived Parser, Auditor and Interpreter (and, through them, to the '
        'library-internal static generators); every call is repeated with a freshly constructed analyser and the two '
        'observations must be identical: verdict, errors with positions and parameters, type, declared arguments, value '
        'class, tree dump with positions, AST string, generated MATH/ASCII text, value, iteration count. For a sample of '
        'inputs the generator outputs are additionally compared with a driver PROCESS that has processed nothing else '
        '(static state). Input kinds: valid logic/set/integer expressions, function and global definitions, multi-line '
        'MATH text with multi-byte symbols, every parse error production, lexer errors, type errors raised inside nested '
        'scopes, value-audit failures through function bodies, failing evaluations (debool, Z, iteration limit), ASCII '
        'text, empty input; all ordered (kind_prev, kind_next) pairs are enumerated, longer sequences are random. '
        'Distinct = hash of the input sequence; non-trivial = sequence has >= 3 inputs of >= 2 kinds.')
ASSUMPTIONS = ['"fresh" = a newly constructed Parser/Auditor/Interpreter over the same context object; for the static '
               'generators "fresh" = a new driver process']
MIN_JUDGED = {'quick': 5000, 'thorough': 100000}
NSH = 32

N = rg.N


def fixed_context():
    g = ty.TypedGen(__import__('random').Random(0))
    cases = ec.inlining_cases()      # builds the F1..F6/P1 context; reuse its spec
    spec = cases[0]['ops'][0]['spec']
    spec = json.loads(json.dumps(spec))
    # a property-class global and a predicate over two sets (value audit through a function body)
    spec['types']['D2'] = {'B': {'b': 'X1'}}
    spec['vclass']['D2'] = 'props'
    spec['data']['D2'] = {'s': [1, 2]}
    spec['types']['P2'] = 'LOGIC'
    spec['funcs']['P2'] = [['a', {'B': {'b': 'X1'}}], ['b', {'B': {'b': 'X1'}}]]
    spec['vclass']['P2'] = 'value'
    spec['asts']['P2'] = 'P2:==[a∈ℬ(X1), b∈ℬ(X1)] a=b'
    spec['types']['A1'] = 'LOGIC'
    spec['vclass']['A1'] = 'value'
    # two functions sharing the formal name 'a': one takes a property argument for it, the other needs it as a value
    spec['types']['F7'] = {'B': {'B': {'b': 'X1'}}}
    spec['funcs']['F7'] = [['a', {'B': {'B': {'b': 'X1'}}}]]
    spec['vclass']['F7'] = 'value'
    spec['asts']['F7'] = 'F7:==[a∈ℬℬ(X1)] a∪{X1}'
    spec['types']['F8'] = {'b': 'Z'}
    spec['funcs']['F8'] = [['a', {'B': {'b': 'X1'}}], ['b', {'B': {'B': {'b': 'X1'}}}]]
    spec['vclass']['F8'] = 'value'
    spec['asts']['F8'] = 'F8:==[a∈ℬ(X1), b∈ℬℬ(X1)] card(a)'
    return spec


# a re-declaration of F7 with the same arity and another argument type (and back): the context changes, the analysers stay
PATCHES = [
    {'types': {'F7': {'B': {'b': 'X1'}}}, 'funcs': {'F7': [['a', {'B': {'t': [{'b': 'X1'}, {'b': 'X1'}]}}]]}, 'asts': {'F7': 'F7:==[a∈ℬ(X1×X1)] Pr1(a)'}},
    {'types': {'F7': {'B': {'B': {'b': 'X1'}}}}, 'funcs': {'F7': [['a', {'B': {'B': {'b': 'X1'}}}]]}, 'asts': {'F7': 'F7:==[a∈ℬℬ(X1)] a∪{X1}'}},
    {'types': {'F7': {'B': {'b': 'X1'}}}, 'funcs': {'F7': [['a', {'B': {'b': 'X1'}}]]}, 'asts': {'F7': 'F7:==[a∈ℬ(X1)] a∪D1'}},
    # same signature as the original F7, another body: the argument may be a property / must be a value / is not interpretable
    {'types': {'F7': {'B': {'B': {'b': 'X1'}}}}, 'funcs': {'F7': [['a', {'B': {'B': {'b': 'X1'}}}]]}, 'asts': {'F7': 'F7:==[a∈ℬℬ(X1)] a∩{X1}'}},
    {'types': {'F7': {'b': 'Z'}}, 'funcs': {'F7': [['a', {'B': {'B': {'b': 'X1'}}}]]}, 'asts': {'F7': 'F7:==[a∈ℬℬ(X1)] card(a)'}},
    {'types': {'F7': {'B': {'B': {'b': 'X1'}}}}, 'funcs': {'F7': [['a', {'B': {'B': {'b': 'X1'}}}]]}, 'asts': {'F7': 'F7:==[a∈ℬℬ(X1)] D{x∈a | x=x}'}},
]


KINDS = {
    'logic': ['∀x∈X1 x∈D1', 'X1⊆X1 & D1≠X1', '∃a∈X1 ∀b∈X1 (a=b ∨ a≠b)', 'card(X1)>2', '1+2*3=7', '∀(a,b)∈X1×X1 a=b'],
    'set': ['D{x∈X1 | x∈D1}', 'X1\\D1', 'F1[D1]', 'Pr1(X1×D1)', 'ℬ(D1)', 'I{(a,b) | a:∈X1; b:=a}', 'R{x:=D1 | x∪D1}', 'F2[F1[X1]]', 'card(X1)+1'],
    'funcdef': ['[a∈ℬ(X1)] a∪X1', 'F9:==[a∈ℬ(R1), b∈R1] D{x∈a | x=b}', '[a∈X1, b∈ℬ(X1)] a∈b', 'P9:==[x∈X1] x∈D1'],
    'globaldecl': ['D9:==X1∪D1', 'S9::=ℬ(X1×X1)', 'X9:==', 'A9:==X1=X1'],
    'multiline': ['∀x∈X1\nx∈D1', 'D{x∈X1 |\n ∃y∈X1\n (x=y) }', 'X1\n∪\nD1', '\n\nX1=X1', 'ℬ(X1)∩\nℬ(D1)≠∅ &\n∀ξ∈X1 ξ∈X1'],
    'syntax-error': ['X1∪', '∀x X1 x=x', '(X1', 'D{x∈X1 x=x}', '[a] a', 'I{x | x:∈X1', '∀x,∈X1 x=x', 'x:∈X1', 'X1 X1', ')('],
    'lexer-error': ['X1 ? D1', 'X1∪#', '"x"', 'X1 = 99999999999999999999', 'Pr0(X1)', '\x7f', 'X1∪\nD1 $'],
    'type-error-nested': ['∀a∈X1 ∃b∈X1 (a=b & b=c)', 'D{a∈X1 | ∀b∈X1 ∃c∈X1 (a=b & pr1(c)=a)}', '∀a∈X1 ∀b∈D1 a∈b', 'I{a | a:∈X1; b:=a; c:∈b}',
                          '[a∈ℬ(X1)] ∀b∈a ∃a∈X1 a=b', 'D{x∈X1 | F1[x]=X1}', 'F1[X1, X1]', '∀x∈X1 x∪x=x', 'R{a:=∅ | a∪{Pr1(a)}}'],
    'value-error': ['P2[D2, X1]', 'D2=X1', 'card(D2)', '{D2}', 'F1[ℬ(X1)]', 'debool(ℬ(X1))', '∀a∈D2 a=a', 'F4[D2, D2]'],
    'eval-error': ['debool(X1)', 'debool(X1\\X1)', '1∈Z', 'card(Z)', 'R{x:=0 | x<200000 | x+1}', 'D{x∈X1 | debool(D1)=x}', '∀x∈X1 debool({x,1})=x'],
    'ascii': ['2*3', 'X1*X1', 'card(X1)*2=6', 'X1 \\union D1', '\\A x \\in X1 x \\in D1', 'D{x \\in X1 | x \\eq x}', 'B(X1)', 'X1*D1', 'card(X1) \\gr 1', 'X1 \\union', '\\A x X1'],
    'empty': ['', ' ', '\n'],
    'props-calls': ['F7[ℬ(X1)]', 'F8[X1, ℬ(X1)]', 'F8[D1, ℬ(D1)]', 'F7[ℬ(D1)]', 'F7[X1×X1]', 'F7[X1]', 'F7[{X1}]', 'card(F7[ℬ(X1)])>F8[X1, ℬ(X1)]'],
    # failures found only by a later pass of an internal retry loop (recursion re-typing), and inputs whose only findings are warnings
    'late-failure': ['R{a:=∅ | D{b∈X1 | a=S1}}', 'R{a:=∅ | a∪{Pr1(a)}}', 'R{a:=∅ | D{b∈X1 | ∀c∈a c=b & a=S1}}',
                     'R{(a,b):=(∅,0) | b<3 | (D{c∈X1 | a=S1}, b+1)}', '∀x∈X1 R{a:=∅ | D{b∈X1 | a=S1 & b=x}}=∅', 'R{a:=∅ | I{b | b:∈X1; a=S1}}'],
    'warnings': ['D{x∈X1 | 1=1}', '∀x∈X1 1=1', 'D{x∈X1 | x=x}∪D{x∈X1 | x=x}', '[a∈ℬ(X1), b∈X1] a', 'D{x∈X1 | ∀y∈X1 x=x}', 'I{1 | a:∈X1}',
                 'card(D{x∈X1 | 1=1})=card(D{x∈X1 | x=x})', 'R{a:=X1 | X1}', '∀(a,b)∈X1×X1 a=a', '[a∈ℬ(X1)] D{a∈X1 | 1=1}'],
    'reuse-names': ['∀a∈X1 a∈X1', 'D{a∈ℬ(X1) | a=a}', '[a∈ℬ(X1)] a∪a', '∀b∈X1 ∃c∈X1 b=c', 'F9 \\defexpr [a \\in B(X1)] a \\union X1', '∀x∈X1 ∀y∈X1 x=y', 'D{x∈X1 | ∃y∈D1 y=x}'],
}


def ops_for(text, obj):
    extra = {'obj': obj} if obj else {}
    syn = 'UNDEF'
    return [dict({'op': 'rs.parse', 'text': text, 'syntax': syn, 'gen': True}, **extra),
            dict({'op': 'rs.check', 'ctx': 'c', 'text': text, 'syntax': syn}, **extra),
            # the same text again under each explicit syntax (and back): what was kept from the previous call on this text
            # must not depend on the syntax it was read in
            dict({'op': 'rs.check', 'ctx': 'c', 'text': text, 'syntax': 'MATH'}, **extra),
            dict({'op': 'rs.check', 'ctx': 'c', 'text': text, 'syntax': 'ASCII'}, **extra),
            dict({'op': 'rs.parse', 'text': text, 'syntax': 'MATH', 'gen': True}, **extra),
            dict({'op': 'rs.check', 'ctx': 'c', 'text': text, 'syntax': syn}, **extra),
            dict({'op': 'rs.eval', 'ctx': 'c', 'text': text, 'syntax': syn, 'withtype': False}, **extra)]


def sequence_case(spec, seq):
    ops = [{'op': 'rs.ctx', 'ctx': 'c', 'spec': spec}]
    plan = [None]
    for k, (kind, text) in enumerate(seq):
        if kind == 'ctx-patch':
            ops.append({'op': 'rs.ctx.patch', 'ctx': 'c', 'spec': PATCHES[text]})
            plan.append(None)
            continue
        for j, o in enumerate(ops_for(text, 'h')):
            ops.append(o)
            plan.append(['h', k, j])
        for j, o in enumerate(ops_for(text, None)):
            ops.append(o)
            plan.append(['f', k, j])
    return core.case(ops, kind='sequence', seq=seq, plan=plan)


def shards(tier, seed):
    return [{'kind': 'pairs', 'i': i} for i in range(NSH)] + [{'kind': 'random', 'i': i} for i in range(NSH)]


def gen_cases(desc, env):
    rnd = env.rng('c18', desc['kind'], desc['i'])
    spec = fixed_context()
    cases = []
    kinds = sorted(KINDS)
    if desc['kind'] == 'pairs':
        n = 0
        for a in kinds:
            for b in kinds:
                if n % NSH == desc['i']:
                    reps = 2 if env.tier == 'quick' else 8
                    for _ in range(reps):
                        seq = [(a, rnd.choice(KINDS[a])), (b, rnd.choice(KINDS[b])), (b, rnd.choice(KINDS[b])), (a, rnd.choice(KINDS[a]))]
                        cases.append(sequence_case(spec, seq))
                    if 'props-calls' in (a, b):
                        # the same calls before and after the declaration of F7 changes under the living analysers
                        seq = [(a, rnd.choice(KINDS[a])), ('props-calls', rnd.choice(KINDS['props-calls'])), ('ctx-patch', rnd.randrange(len(PATCHES))),
                               ('props-calls', rnd.choice(KINDS['props-calls'])), (b, rnd.choice(KINDS[b])), ('ctx-patch', rnd.randrange(len(PATCHES))),
                               ('props-calls', rnd.choice(KINDS['props-calls'][4:7])), ('props-calls', rnd.choice(KINDS['props-calls'][:4]))]
                        cases.append(sequence_case(spec, seq))
                n += 1
        if desc['i'] == 0:
            # every ordered pair of F7 declarations under the living analysers, the same property-argument call before and after
            for pi in range(len(PATCHES)):
                for qi in range(len(PATCHES)):
                    if pi == qi:
                        continue
                    for call in KINDS['props-calls']:
                        if 'F7' in call:
                            cases.append(sequence_case(spec, [('ctx-patch', pi), ('props-calls', call), ('ctx-patch', qi), ('props-calls', call)]))
    else:
        count = 8 if env.tier == 'quick' else 200
        for j in range(count):
            if j % 2 == 0:
                seq = []
                for _ in range(rnd.randint(5, 40)):
                    k = rnd.choice(kinds)
                    seq.append((k, rnd.choice(KINDS[k])))
                cases.append(sequence_case(spec, seq))
            else:
                # random context and generated expressions (valid, mutated, rendered in either syntax)
                g = ty.TypedGen(rnd)
                ctx = g.make_context()
                seq = []
                for _ in range(rnd.randint(5, 25)):
                    tree = g.expression(rnd.choice([1, 2, 3]))
                    mk = 'typed'
                    if rnd.random() < 0.4:
                        tree, mk = ty.mutate(tree, g, rnd)
                    if rg.count_nodes(tree) > 80:
                        continue
                    syntax = 'MATH' if (rnd.random() < 0.7 or rg.has_greek(tree)) else 'ASCII'
                    text, _sp = rg.render(rg.map_locals(tree, (lambda x: x) if syntax == 'MATH' else rg.translit), syntax, rnd, ws=0.2, nl=0.3, parens=0.1)
                    if rnd.random() < 0.2:
                        from .p04 import mutate_text
                        b = mutate_text(rnd, text)
                        try:
                            text = b.decode('utf-8')
                        except UnicodeDecodeError:
                            pass
                        if '\x00' in text:
                            text = text.replace('\x00', '?')
                        mk = 'bytes'
                    seq.append((mk, text))
                if seq:
                    cases.append(sequence_case(ctx.spec(), seq))
    return cases


def judge(res, cs, cr):
    if cr.death is not None and cr.death['kind'] != 'harness':
        res.count('deaths_not_judged_here')   # memory safety is C02/C04 material; the sequence is abandoned
        return
    if cr.death is not None:
        res.harness_error(cr.death['text'])
        return
    if cr.hang:
        res.count('inconclusive')
        return
    seq = cs['meta']['seq']
    plan = cs['meta']['plan']
    held = {}
    bad = []
    for op, ev, pl in zip(cs['ops'], cr.events, plan):
        if pl is None:
            continue
        if 'harness_error' in ev:
            res.harness_error(ev['harness_error'])
            return
        who, k = pl[0], pl[1]
        key = (k, pl[2] if len(pl) > 2 else op['op'])
        if who == 'h':
            held[key] = ev
        else:
            other = held.get(key)
            if other is None:
                continue
            res.count('judged')
            res.cover('kind:' + seq[k][0])
            res.cover('entry:' + op['op'])
            succ = {'rs.parse': 'ok', 'rs.check': 'ok', 'rs.eval': 'has'}[op['op']]
            if not other.get(succ) and not ev.get(succ):
                # both calls failed: the property fixes only the verdict and the errors with their positions
                always = {'rs.parse': ('ok', 'errors', 'syn'), 'rs.check': ('ok', 'parsed', 'errors', 'vok'), 'rs.eval': ('has', 'errors')}[op['op']]
                other_cmp = {f: other.get(f) for f in always}
                ev_cmp = {f: ev.get(f) for f in always}
            else:
                other_cmp, ev_cmp = other, ev
            if other_cmp != ev_cmp:
                other, ev = other_cmp, ev_cmp
                diff = [f for f in set(other) | set(ev) if other.get(f) != ev.get(f)]
                d0 = diff[0]
                prev = seq[k - 1] if k else ('-', '')
                bad.append((f"{op['op']}:{d0}", f"input #{k} {seq[k][1]!r} (kind {seq[k][0]}) after {prev[1]!r} (kind {prev[0]}): field {d0!r} differs: "
                                                f"reused -> {json.dumps(other.get(d0), ensure_ascii=False)[:300]} ; fresh -> {json.dumps(ev.get(d0), ensure_ascii=False)[:300]}"))
    seen = set()
    for what, msg in bad:
        if what in seen:
            continue
        seen.add(what)
        res.violation(f'{PROP}/history/{what}', msg, cs)
    kinds = {k for k, _t in seq}
    res.judged(repr(seq), nontrivial=len(seq) >= 3 and len(kinds) >= 2)
    res.counters['judged'] -= 1
    res.count('sequences')
    if len(seq) >= 5:
        res.sample({'sequence': [t for _k, t in seq[:6]], 'kinds': [k for k, _t in seq[:6]], 'length': len(seq)}, limit=1)


def static_state_check(res, env, rnd, spec):
    """generator outputs of a process with history vs a process that did nothing else"""
    texts = []
    for k in ('logic', 'set', 'funcdef', 'globaldecl', 'multiline', 'ascii'):
        texts += KINDS[k]
    rnd.shuffle(texts)
    texts = texts[:10 if env.tier == 'quick' else 40]
    history = [{'op': 'rs.parse', 'text': t, 'syntax': 'UNDEF', 'gen': True} for t in sum(KINDS.values(), [])]
    static_ops = [{'op': 'rs.static', 'structure': {'B': {'t': [{'b': 'X1'}, {'B': {'b': 'X1'}}]}}, 'name': 'S1', 'globaldef': 'X1∪X1'}]
    long_case = core.case(history + [{'op': 'rs.parse', 'text': t, 'syntax': 'UNDEF', 'gen': True} for t in texts] + static_ops, kind='static-long')
    results = core.run_driver(env.driver, [long_case])
    if not results[0].complete:
        res.count('inconclusive')
        return
    after = results[0].events[len(history):]
    for t, ev_long in zip(texts + [None], after):
        op = {'op': 'rs.parse', 'text': t, 'syntax': 'UNDEF', 'gen': True} if t is not None else static_ops[0]
        # the fresh process prints in the OTHER order (ASCII first): output must not depend on what the shared generator printed before
        single = core.run_driver(env.driver, [core.case([dict(op, gen_first='ASCII')] if t is not None else [op], kind='static-fresh')])[0]
        if not single.complete:
            res.count('inconclusive')
            continue
        res.count('judged')
        res.count('fresh_process_comparisons')
        if single.events[0] != ev_long:
            diff = [f for f in set(ev_long) | set(single.events[0]) if ev_long.get(f) != single.events[0].get(f)]
            res.violation(f'{PROP}/history/static:{diff[0]}', f'{op}: field {diff[0]} differs between a process with history and a fresh process',
                          core.case(history + [op], kind='static-long'))


def run_shard(desc, env):
    res = core.ShardResult()
    for cs, cr in env.execute(gen_cases(desc, env), chunk=10):
        judge(res, cs, cr)
    if desc['kind'] == 'random' and desc['i'] < 4:
        static_state_check(res, env, env.rng('static', desc['i']), fixed_context())
    return res


def replay(cs, env):
    res = core.ShardResult()
    for c, cr in env.execute([cs]):
        if c['meta'].get('kind') == 'sequence':
            judge(res, c, cr)
    return res


RULE = RULE + ' Every text is also checked under MATH, ASCII and again the estimated syntax on the same objects; inputs that fail only in a later internal pass (recursion re-typing), warning-only inputs, all ordered pairs of six declarations of F7 around each property-argument call.'
