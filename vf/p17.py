"""C17 — text references are extracted, resolved and written back consistently."""
import copy

from . import core
from . import refmodel as rm

PROP = 'C17'
RULE = ('generated UTF-8 texts (1-4 byte characters) mixing valid entity/collaboration references in every documented '
        'spelling (comma form, legacy |-separated form with numeric suffix, padded tags, unknown tags), malformed ones, '
        'adjacent and nested markers, lone @ { } |; term contexts with missing entities, empty terms, manual forms and '
        'chained terms. Per text one session: ExtractAll, Resolve (+positions, resolved texts with an inflection-'
        'tagging text processor), OutputRefs, then random Insert / EraseIn / FirstIn / OutputRefs(sub-range) steps, '
        'ManagedText Init/TranslateRaw/TranslateRefs/Referals, and term edits (SetText/SetForm/UpdateFrom) followed by '
        're-resolution. Oracle: Python reference scanner + field grammar + resolution model; invariant "every recorded '
        'range delimits its resolved text in the model text" after every step. Distinct = hash of text+context; '
        'non-trivial = text contains >= 2 reference markers.')
ASSUMPTIONS = [
    'reference scanner, field grammar and resolution model in vf/refmodel.py (trusted)',
    'texts where skipping an invalid candidate as a whole and resuming inside it give different reference lists '
    '(nested markers inside invalid references, unbalanced braces followed by further markers) are not judged for '
    'the reference list (counted as unspecified), only for absence of faults',
    'Insert refusal policy is not judged, only that a refusal changes nothing and an accepted insertion keeps all ranges aligned',
    'OutputRefs on a sub-range is judged only when the sub-range cuts no reference',
]
MIN_JUDGED = {'quick': 20000, 'thorough': 400000}
NSH = 32

ENTITIES = ['X1', 'X2', 'D1', 'T11', 'F3', 'x', 'Xa', 'Xα', 'Tж1']
MISSING = ['Q9', 'Z0']
TAGS = ['nomn', 'gent', 'datv', 'ablt', 'accs', 'loct', 'sing', 'plur', 'masc', 'NOUN', 'ADJF', '1per', 'past']
PLAIN = ['a', 'word', ' ', ' ', ', ', 'тер', 'мин ', '€', '\U0001F600', 'ℬ', '.', '\n', 'X1', '1', '-']
NOISE = ['@', '{', '}', '|', '@@', '@ {', '@}', '{}', '@{', '}}', '@{}', '@', '@']


def gen_ref(rnd, valid_bias=0.7):
    r = rnd.random()
    ent = rnd.choice(ENTITIES + MISSING[:1]) if rnd.random() < 0.9 else rnd.choice(MISSING)
    if r < valid_bias * 0.6:
        k = rnd.randint(1, 3)
        tags = rnd.sample(TAGS, k)
        style = rnd.random()
        if style < 0.5:
            return '@{' + ent + '|' + ','.join(tags) + '}'
        if style < 0.65:
            return '@{' + ent + '|' + ' , '.join(tags) + ' }'
        if style < 0.8 and k <= 2:
            return '@{' + ent + '|' + '|'.join(tags) + ('|' + str(rnd.randint(0, 9)) if k == 1 and rnd.random() < 0.5 else '') + '}'
        if style < 0.9:
            return '@{' + ent + '|' + ','.join(tags + ['foo', 'UNKN']) + '}'
        return '@{' + ent + '|' + ','.join(tags + tags[:1]) + '}'
    if r < valid_bias:
        off = rnd.choice([-2, -1, -1, 1, 1, 2, 0, 3, -3, 7, 32767, -32768])
        nom = rnd.choice(['слово', 'dep', 'x y', '', 'a,b', 'текст€'])
        return '@{' + str(off) + '|' + nom + '}'
    bad = ['@{}', '@{X1}', '@{|nomn}', '@{X1|}', '@{X1|foo}', '@{1|a|b}', '@{X1|nomn|sing|1|2}', '@{Ж1|nomn}', '@{-|x}',
           '@{1x|y}', '@{X1|UNKN}', '@{ X1|nomn}', '@{+1|x}', '@{X1 |nomn}', '@{1 |x}', '@{X1|nomn|}', '@{X1|nomn|sing|}',
           '@{99999999999|x}', '@{70000|x}', '@{-40000|x}', '@{X1||}', '@{X1|nomn|9}', '@{X1|9}']
    return rnd.choice(bad)


def gen_text(rnd, hostile):
    parts = []
    n = rnd.randint(1, 9)
    for _ in range(n):
        r = rnd.random()
        if r < 0.45:
            parts.append(gen_ref(rnd))
        elif r < 0.45 + (0.2 if hostile else 0.03):
            parts.append(rnd.choice(NOISE))
        else:
            parts.append(''.join(rnd.choice(PLAIN) for _ in range(rnd.randint(1, 4))))
    if hostile and rnd.random() < 0.3:
        inner = gen_ref(rnd)
        parts.insert(rnd.randrange(len(parts) + 1), rnd.choice(['@{ ' + inner + ' }', '@{X1|' + inner + '}', '@' + inner, inner + inner, '}' + inner]))
    return ''.join(parts)


def gen_context(rnd):
    terms = []
    names = rnd.sample(ENTITIES, rnd.randint(2, len(ENTITIES)))
    for nm in names:
        r = rnd.random()
        if r < 0.15:
            raw = ''
        elif r < 0.6:
            raw = rnd.choice(['множество', 'term ' + nm, 'человек', 'a€b', 'родовая структура'])
        else:
            other = rnd.choice(ENTITIES + MISSING)
            raw = rnd.choice(['', 'of ', 'часть ']) + '@{' + other + '|' + rnd.choice(TAGS) + ',' + rnd.choice(TAGS) + '}' + rnd.choice(['', ' x'])
        t = {'name': nm, 'raw': raw}
        if rnd.random() < 0.15:
            t['resolved'] = rnd.choice(['cached ' + nm, ''])
        terms.append(t)
    return terms


def model_ctx_after(ops):
    ctx = {}
    for op in ops:
        if op['op'] == 'ctx.new':
            for t in op['terms']:
                ctx[t['name']] = rm.Term(t['raw'], t.get('resolved', ''))
        elif op['op'] == 'ctx.term':
            apply_term_op(ctx, op)
    return ctx


def apply_term_op(ctx, op):
    k = op['k']
    if k == 'setform':
        term = ctx.setdefault(op['name'], rm.Term())
        term.manual[rm.morph(op['tags'].split(','))] = op['text']
    elif k == 'settext':
        term = ctx.setdefault(op['name'], rm.Term())
        if op['raw'] != term.raw:
            term.raw = op['raw']
            term.cache = rm.resolve(term.raw, ctx)[0]
            term.manual = {}
    elif k == 'update':
        term = ctx.get(op['name'])
        if term is not None:
            term.cache = rm.resolve(term.raw, ctx)[0]
    elif k == 'erase':
        ctx.pop(op['name'], None)


def build_case(rnd, hostile):
    text = gen_text(rnd, hostile)
    terms = gen_context(rnd)
    ops = [{'op': 'env.processor', 'mode': 'tagging'}, {'op': 'ctx.new', 'ctx': 'c', 'terms': terms}]
    plan = [['env'], ['ctxnew']]
    # manual forms and updates
    for t in terms:
        if rnd.random() < 0.25:
            tags = ','.join(rnd.sample(TAGS[:8], 2))
            ops.append({'op': 'ctx.term', 'ctx': 'c', 'name': t['name'], 'k': 'setform', 'tags': tags,
                        'text': rnd.choice(['ручная форма', '', 'manual'])})
            plan.append(['setform'])
    order = [t['name'] for t in terms]
    rnd.shuffle(order)
    for nm in order:
        if rnd.random() < 0.8:
            ops.append({'op': 'ctx.term', 'ctx': 'c', 'name': nm, 'k': 'update', 'forms': ['sing,nomn', 'plur,gent']})
            plan.append(['update'])
    ops.append({'op': 'ref.extract', 'text': text})
    plan.append(['extract'])
    ops.append({'op': 'refs.resolve', 'ctx': 'c', 'm': 'm', 'text': text})
    plan.append(['resolve'])
    # OutputRefs on sub-ranges of the (model) resolved text, before any insert/erase
    exp_text, exp_refs, spec = rm.resolve(text, model_ctx_after(ops))
    if spec and exp_text:
        for _ in range(rnd.randint(0, 3)):
            s0 = rnd.randint(0, len(exp_text) - 1)
            f0 = rnd.randint(s0 + 1, len(exp_text))
            ops.append({'op': 'refs.step', 'm': 'm', 'k': 'output', 'range': [s0, f0], 'norm': exp_text})
            plan.append(['outsub'])
    for _ in range(rnd.randint(0, 6)):
        r = rnd.random()
        if r < 0.35:
            ops.append({'op': 'refs.step', 'm': 'm', 'k': 'insert', 'ref': gen_ref(rnd, 0.95), 'at': rnd.randint(0, 40)})
            plan.append(['insert'])
        elif r < 0.65:
            s = rnd.randint(0, 40)
            ops.append({'op': 'refs.step', 'm': 'm', 'k': 'erase', 'range': [s, s + rnd.randint(0, 12)], 'expand': rnd.random() < 0.5})
            plan.append(['erase'])
        elif r < 0.8:
            s = rnd.randint(0, 40)
            ops.append({'op': 'refs.step', 'm': 'm', 'k': 'firstin', 'range': [s, s + rnd.randint(0, 10)]})
            plan.append(['firstin'])
        else:
            s = rnd.randint(0, 40)
            ops.append({'op': 'refs.step', 'm': 'm', 'k': 'firstin', 'range': [s, s]})
            plan.append(['firstin'])
    # managed text
    ops.append({'op': 'mtext.step', 't': 't', 'k': 'init', 'raw': text, 'ctx': 'c'})
    plan.append(['minit'])
    mapping = {}
    for nm in rnd.sample(ENTITIES, rnd.randint(1, 3)):
        mapping[nm] = rnd.choice(['X7', 'D12', nm, 'X1', 'Y' + nm, 'Zβ'])
    ops.append({'op': 'mtext.step', 't': 't', 'k': rnd.choice(['translateraw', 'translaterefs']), 'map': mapping, 'ctx': 'c'})
    plan.append(['mtranslate'])
    # term edits followed by re-resolution (stale caches would show)
    for _ in range(rnd.randint(0, 3)):
        nm = rnd.choice([t['name'] for t in terms])
        r = rnd.random()
        if r < 0.5:
            ops.append({'op': 'ctx.term', 'ctx': 'c', 'name': nm, 'k': 'settext', 'raw': rnd.choice(['новый текст', '', 'other', '@{%s|plur,datv} part' % ('X1' if nm != 'X1' else 'X2')])})   # never a reference to the term itself: its resolution order is not part of the property
            plan.append(['settext'])
        elif r < 0.7:
            ops.append({'op': 'ctx.term', 'ctx': 'c', 'name': nm, 'k': 'setform', 'tags': ','.join(rnd.sample(TAGS[:8], 2)), 'text': 'mf'})
            plan.append(['setform'])
        else:
            ops.append({'op': 'ctx.term', 'ctx': 'c', 'name': nm, 'k': 'update', 'forms': ['sing,nomn', 'plur,gent', 'sing,datv']})
            plan.append(['update'])
        for other in rnd.sample([t['name'] for t in terms], min(2, len(terms))):
            ops.append({'op': 'ctx.term', 'ctx': 'c', 'name': other, 'k': 'update', 'forms': ['sing,nomn', 'plur,gent', 'sing,datv']})
            plan.append(['update'])
    if rnd.random() < 0.4:
        # entities leave and enter the context object (or are replaced by a new term object) while the first manager stays alive
        for _ in range(rnd.randint(1, 3)):
            nm = rnd.choice(ENTITIES)
            r = rnd.random()
            if r < 0.45:
                ops.append({'op': 'ctx.term', 'ctx': 'c', 'name': nm, 'k': 'erase'})
                plan.append(['erase-term'])
            if r > 0.3:
                ops.append({'op': 'ctx.term', 'ctx': 'c', 'name': nm, 'k': 'settext', 'raw': rnd.choice(['пришелец', 'late ' + nm, 'человек'])})
                plan.append(['settext'])
    # the first manager, alive through all of the above, resolves again; then a fresh one: both see the current context
    ops.append({'op': 'refs.step', 'm': 'm', 'k': 'resolve', 'text': text})
    plan.append(['resolve3'])
    ops.append({'op': 'refs.resolve', 'ctx': 'c', 'm': 'm2', 'text': text})
    plan.append(['resolve2'])
    return core.case(ops, kind='session', text=text, plan=plan)


def shards(tier, seed):
    return [{'i': i} for i in range(NSH)]


def unbytes(v):
    if isinstance(v, dict) and 'hex' in v:
        return bytes.fromhex(v['hex']).decode('utf-8', 'replace')
    return v


def ref_tuple_real(r):
    if r['type'] == 'entity':
        return ('entity', r['pos'][0], r['pos'][1], unbytes(r['entity']), r['form'], unbytes(r['str']))
    return ('collab', r['pos'][0], r['pos'][1], r['offset'], unbytes(r['nominal']), unbytes(r['str']))


def ref_tuple_model(r):
    if r.kind == 'entity':
        return ('entity', r.start, r.finish, r.entity, rm.morph_str(r.form), r.to_string())
    return ('collab', r.start, r.finish, r.offset, r.nominal, r.to_string())


def judge(res, cs, cr):
    if not core.std_death_checks(res, PROP, cs, cr):
        return
    text = cs['meta']['text']
    ctx = {}
    bad = []

    def viol(what, msg):
        bad.append((what, msg))

    mgr_text = None      # model of the resolved text managed by RefsManager 'm'
    mgr_refs = None      # real refs (dicts) after the previous step
    mtext_raw = None
    specified_any = True
    for op, ev, step in zip(cs['ops'], cr.events, cs['meta']['plan']):
        k = step[0]
        res.cover('step:' + k)
        if k == 'ctxnew':
            for t in op['terms']:
                ctx[t['name']] = rm.Term(t['raw'], t.get('resolved', ''))
        elif k in ('setform', 'settext', 'update', 'erase-term'):
            apply_term_op(ctx, op)
        if k in ('setform', 'settext', 'update'):
            term = ctx.get(op['name'])
            if term is not None and 'term' in ev:
                got = ev['term']
                if unbytes(got['str']) != term.str() or unbytes(got['raw']) != term.raw:
                    viol('term-text', f"term {op['name']} after {k}: Str={unbytes(got['str'])!r} Raw={unbytes(got['raw'])!r} expected {term.str()!r} / {term.raw!r}")
                for tags, val in got['forms'].items():
                    exp = term.get_form(rm.morph(tags.split(',')))
                    if unbytes(val) != exp:
                        viol('term-form', f"term {op['name']} GetForm({tags}) -> {unbytes(val)!r} expected {exp!r} after {k}")
                res.count('judged', 1 + len(got['forms']))
        elif k == 'extract':
            exp_refs, spec = rm.extract(text)
            if not spec:
                res.count('unspecified')
                specified_any = False
            else:
                got = [ref_tuple_real(r) for r in ev['refs']]
                exp = [ref_tuple_model(r) for r in exp_refs]
                if got != exp:
                    viol('extract', f'ExtractAll({text!r}) -> {got} expected {exp}')
                res.count('judged', 1 + len(exp))
                res.count('refs_expected', len(exp))
        elif k in ('resolve', 'resolve2', 'resolve3'):
            exp_text, exp_refs, spec = rm.resolve(text, ctx)
            got_text = unbytes(ev['resolved'])
            if spec:
                if got_text != exp_text:
                    viol(k + '-text', f'Resolve({text!r}) -> {got_text!r} expected {exp_text!r}')
                got = [(r['type'], r['pos'][0], r['pos'][1], unbytes(r['resolved'])) for r in ev['refs']]
                exp = [(r.kind, r.start, r.finish, r.resolved) for r in exp_refs]
                if got != exp:
                    viol(k + '-refs', f'Resolve({text!r}) refs {got} expected {exp}')
                canon, _ = rm.canonical(text)
                if unbytes(ev['output']) != canon:
                    viol('outputrefs', f"OutputRefs(Resolve({text!r})) -> {unbytes(ev['output'])!r} expected {canon!r}")
                res.count('judged', 3 + len(exp))
            # range invariant on the real data (always judged)
            for r in ev['refs']:
                if got_text[r['pos'][0]:r['pos'][1]] != unbytes(r['resolved']) or r['pos'][0] > r['pos'][1]:
                    viol('range-invariant', f"after Resolve({text!r}): range {r['pos']} does not delimit {unbytes(r['resolved'])!r} in {got_text!r}")
            if k in ('resolve', 'resolve3'):
                mgr_text = got_text
                mgr_refs = ev['refs']
        elif k in ('insert', 'erase') and mgr_text is None:
            mgr_refs = ev['refs']
            res.count('inconclusive')
        elif k == 'insert':
            before = mgr_refs
            after = ev['refs']
            if not ev.get('valid') or not ev.get('inserted'):
                if after != before:
                    viol('insert-refused-changed', f"refused Insert({op['ref']!r}, {op['at']}) changed the references")
            else:
                at = op['at']
                new = ev['ref']
                rtxt = unbytes(new['resolved'])
                if at > len(mgr_text):
                    res.count('unspecified')   # insertion beyond the managed text: caller error
                    mgr_text = mgr_text + ' ' * (at - len(mgr_text))
                inside = any(r['pos'][0] < at < r['pos'][1] for r in before)
                if inside:
                    viol('insert-inside', f"Insert at {at} accepted strictly inside an existing reference {before}")
                mgr_text = mgr_text[:at] + rtxt + mgr_text[at:]
                if new['pos'] != [at, at + len(rtxt)]:
                    viol('insert-position', f"inserted reference position {new['pos']} expected {[at, at + len(rtxt)]}")
                if len(after) != len(before) + 1:
                    viol('insert-count', f'Insert changed reference count {len(before)} -> {len(after)}')
                # expected resolution of the inserted reference
                mref = rm.parse_ref(op['ref'])
                if mref is not None and mref.kind == 'entity':
                    term = ctx.get(mref.entity)
                    exp = ("!Cannot find entity: '" + mref.entity + "'!") if term is None else rm.empty_check(term.get_form(mref.form) or term.str())
                    if rtxt != exp:
                        viol('insert-resolution', f"inserted {op['ref']!r} resolved to {rtxt!r} expected {exp!r}")
                elif mref is not None and mref.kind == 'collab' and len(after) == len(before) + 1:
                    # a collaboration reference resolves against the |offset|-th entity reference before / after it
                    idx = next((i for i, r in enumerate(after) if r['pos'] == new['pos'] and r['type'] == 'collab'), None)
                    if idx is not None:
                        if mref.nominal == '':
                            exp = '!Empty reference!'
                        else:
                            master = None
                            if mref.offset != 0:
                                cnt, step, j = abs(mref.offset), (1 if mref.offset > 0 else -1), idx + (1 if mref.offset > 0 else -1)
                                while 0 <= j < len(after):
                                    if after[j]['type'] == 'entity':
                                        cnt -= 1
                                        if cnt == 0:
                                            master = after[j]
                                            break
                                    j += step
                            exp = ("!Invalid offset for " + mref.nominal + ": '" + str(mref.offset) + "'!") if master is None else rm.empty_check(mref.nominal + '~' + unbytes(master['resolved']))
                        res.cover('insert:collaboration' + (':forward' if mref.offset > 0 else ''))
                        if rtxt != exp:
                            viol('insert-resolution', f"inserted {op['ref']!r} resolved to {rtxt!r} expected {exp!r} (references after the insertion: {[(r['type'], unbytes(r['resolved'])) for r in after]})")
            mgr_refs = after
            res.count('judged', 2)
        elif k == 'erase':
            before = mgr_refs
            after = ev['refs']
            if ev['erased'] is None:
                if after != before:
                    viol('erase-refused-changed', f"refused EraseIn({op['range']}) changed the references")
            else:
                s, f = ev['erased']
                if f > len(mgr_text) or s < 0:
                    res.count('unspecified')
                    mgr_text = None
                else:
                    mgr_text = mgr_text[:s] + mgr_text[f:]
                    exp_left = [r for r in before if not (s <= r['pos'][0] and r['pos'][1] <= f)]
                    if len(after) != len(exp_left):
                        viol('erase-count', f"EraseIn({op['range']}, expand={op['expand']}) -> {ev['erased']}: {len(before)} refs -> {len(after)}, expected {len(exp_left)} to remain")
            mgr_refs = after
            res.count('judged', 2)
        elif k == 'firstin':
            s, f = op['range']
            got = ev['first']
            overl = [r for r in mgr_refs if max(r['pos'][0], s) < min(r['pos'][1], f)]
            if got is None:
                if overl:
                    viol('firstin-missed', f"FirstIn({op['range']}) = none although {overl[0]['pos']} overlaps")
            else:
                if got['pos'][1] < s or got['pos'][0] > f:
                    viol('firstin-wrong', f"FirstIn({op['range']}) = {got['pos']} does not touch the range")
                if overl and got['pos'][0] > overl[0]['pos'][0]:
                    viol('firstin-notfirst', f"FirstIn({op['range']}) = {got['pos']} but {overl[0]['pos']} comes first")
            res.count('judged')
        elif k == 'outsub':
            s0, f0 = op['range']
            norm = op['norm']
            _t, mrefs, spec = rm.resolve(text, ctx)
            cuts = any((r.start < s0 < r.finish) or (r.start < f0 < r.finish) for r in mrefs)
            if spec and not cuts:
                outp = []
                cur = s0
                for r in mrefs:
                    if r.start >= s0 and r.finish <= f0:
                        outp.append(norm[cur:r.start])
                        outp.append(r.to_string())
                        cur = r.finish
                outp.append(norm[cur:f0])
                exp = ''.join(outp)
                if unbytes(ev['output']) != exp:
                    viol('outputrefs-subrange', f"OutputRefs({norm!r}, {op['range']}) -> {unbytes(ev['output'])!r} expected {exp!r}")
                res.count('judged')
            else:
                res.count('unspecified')
        elif k == 'minit':
            exp_text, _r, spec = rm.resolve(text, ctx)
            refs, spec2 = rm.referals(text)
            if spec and spec2:
                exp_str = exp_text if exp_text != '' else text
                if unbytes(ev['str']) != exp_str or unbytes(ev['raw']) != text:
                    viol('managedtext-str', f"ManagedText({text!r}).Str() -> {unbytes(ev['str'])!r} expected {exp_str!r}")
                if [unbytes(x) for x in ev['referals']] != refs:
                    viol('referals', f"Referals({text!r}) -> {ev['referals']} expected {refs}")
                res.count('judged', 2)
            mtext_raw = text
        elif k == 'mtranslate':
            exp_raw, spec = rm.translate_raw(mtext_raw, op['map'])
            if spec:
                if unbytes(ev['raw']) != exp_raw:
                    viol('translateraw', f"Translate{op['map']} of {mtext_raw!r} -> {unbytes(ev['raw'])!r} expected {exp_raw!r}")
                else:
                    refs, spec3 = rm.referals(exp_raw)
                    if spec3 and [unbytes(x) for x in ev['referals']] != refs:
                        viol('referals', f"Referals after translation -> {ev['referals']} expected {refs}")
                    if op['k'] == 'translaterefs':
                        exp_text, _r, spec4 = rm.resolve(exp_raw, ctx)
                        exp_str = exp_text if exp_text != '' else exp_raw
                        if spec4 and unbytes(ev['str']) != exp_str:
                            viol('translaterefs-str', f"TranslateRefs: Str() -> {unbytes(ev['str'])!r} expected {exp_str!r}")
                res.count('judged', 2)
            mtext_raw = unbytes(ev['raw'])
        # alignment invariant after every manager step
        if k in ('insert', 'erase') and mgr_text is not None:
            prev_end = -1
            for r in ev['refs']:
                s, f = r['pos']
                if mgr_text[s:f] != unbytes(r['resolved']):
                    viol('alignment-after-' + k, f"after {op}: range {r['pos']} delimits {mgr_text[s:f]!r}, not its resolved text {unbytes(r['resolved'])!r}; model text {mgr_text!r}")
                    mgr_text = None
                    break
                if s < prev_end:
                    viol('overlap-after-' + k, f"after {op}: references overlap {[x['pos'] for x in ev['refs']]}")
                prev_end = f
            res.count('judged', len(ev['refs']))
    seen = set()
    for what, msg in bad:
        if what in seen:
            continue
        seen.add(what)
        res.violation(f'{PROP}/refs/{what}', msg, cs)
    markers = text.count('@{')
    res.judged('T:' + text + repr(cs['ops'][1].get('terms')), nontrivial=markers >= 2)
    res.count('sessions')
    if markers >= 2 and specified_any:
        res.sample({'text': text, 'terms': cs['ops'][1]['terms'][:3], 'steps': [s[0] for s in cs['meta']['plan']]}, limit=1)


def run_shard(desc, env):
    res = core.ShardResult()
    rnd = env.rng('c17', desc['i'])
    n = 150 if env.tier == 'quick' else 4000
    cases = [build_case(rnd, hostile=(j % 3 == 0)) for j in range(n)]
    for cs, cr in env.execute(cases, chunk=100):
        judge(res, cs, cr)
    return res


def replay(cs, env):
    res = core.ShardResult()
    for c, cr in env.execute([cs]):
        judge(res, c, cr)
    return res


RULE = RULE + ' The first RefsManager stays alive while terms are edited, erased and re-created in the context object and then resolves again (resolve3), followed by a fresh manager (resolve2).'
