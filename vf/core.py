"""Orchestrator core: driver execution, death attribution, verdict bookkeeping, evidence, known findings.

See DESIGN.md section 2.3.  Standard library only.
"""
import collections
import hashlib
import json
import os
import random
import re
import signal
import subprocess
import sys
import tempfile
import time
import traceback
from concurrent.futures import ProcessPoolExecutor

VERIF = os.path.dirname(os.path.dirname(os.path.abspath(__file__)))
CACHE = os.environ.get('VERIF_CACHE', os.path.join(VERIF, '.cache'))
TMP = os.path.join(CACHE, 'tmp')

ASAN_OPTIONS = ('abort_on_error=1:detect_leaks=0:allocator_may_return_null=1:quarantine_size_mb=16:'
                'handle_abort=1:symbolize=1:detect_stack_use_after_return=0:malloc_context_size=8')
UBSAN_OPTIONS = 'print_stacktrace=1:halt_on_error=1'


# --------------------------------------------------------------------------------------------
# cases and results
# --------------------------------------------------------------------------------------------

def case(ops, **meta):
    return {'ops': ops, 'meta': meta}


class CaseResult:
    __slots__ = ('events', 'death', 'hang', 'stderr')

    def __init__(self):
        self.events = []      # one dict per completed op
        self.death = None     # None or dict(kind, key, text, op_index)
        self.hang = False
        self.stderr = ''

    @property
    def complete(self):
        return self.death is None and not self.hang


_FRAME = re.compile(r'^\s*#\d+\s+0x[0-9a-f]+\s+in\s+(.*?)\s+(\S+:\d+(?::\d+)?|\(\S+\+0x[0-9a-f]+\))', re.M)


def _strip_fn(name):
    # drop argument lists and template args for stable keys
    name = re.sub(r'\(.*$', '', name)
    name = re.sub(r'<[^<>]*>', '', name)
    name = re.sub(r'<[^<>]*>', '', name)
    return name.strip()


def classify_death(stderr, returncode):
    """Turn a dead driver's stderr into (kind, key, short text)."""
    text = stderr[-20000:]
    kind = 'signal'
    m = re.search(r'ERROR: AddressSanitizer: ([\w-]+)', text)
    if m:
        kind = 'asan:' + m.group(1)
    else:
        m = re.search(r'(\S+:\d+):\d+: runtime error: (.*)', text)
        if m:
            msg = re.sub(r'0x[0-9a-f]+', 'ADDR', m.group(2))
            msg = re.sub(r'-?\d+', 'N', msg)
            kind = 'ubsan:' + msg[:80]
        else:
            m = re.search(r"Assertion '(.*?)' failed", text)
            if m:
                kind = 'glibcxx-assert:' + m.group(1)[:80]
            else:
                m = re.search(r"terminate called after throwing an instance of '(.*?)'", text)
                if m:
                    kind = 'terminate:' + m.group(1)
                elif 'terminate called' in text:
                    kind = 'terminate'
                elif 'AddressSanitizer: stack-overflow' in text or 'stack-overflow' in text:
                    kind = 'asan:stack-overflow'
                elif returncode is not None and returncode < 0:
                    try:
                        kind = 'signal:' + signal.Signals(-returncode).name
                    except ValueError:
                        kind = f'signal:{-returncode}'
                else:
                    kind = f'exit:{returncode}'
    frames = []
    for fm in _FRAME.finditer(text):
        fn = fm.group(1)
        if 'ccl::' in fn or fn.startswith('ccl'):
            s = _strip_fn(fn)
            if s not in frames:
                frames.append(s)
        if len(frames) >= 2:
            break
    if not frames:
        m = re.search(r'(/repo/\S+?):(\d+)', text)
        if m:
            frames.append(os.path.basename(m.group(1)))
    key = kind + '@' + '<'.join(frames)
    return kind, key, text[-6000:]


def run_driver(driver, cases, op_timeout=20, wall_timeout=None, env_extra=None):
    """Execute cases (lists of ops) sequentially in driver processes; restart after a death.

    Returns a list of CaseResult aligned with cases.
    """
    os.makedirs(TMP, exist_ok=True)
    results = [CaseResult() for _ in cases]
    start = 0
    env = dict(os.environ)
    env['ASAN_OPTIONS'] = ASAN_OPTIONS
    env['UBSAN_OPTIONS'] = UBSAN_OPTIONS
    env['VERIF_OP_TIMEOUT'] = str(op_timeout)
    if env_extra:
        env.update(env_extra)
    while start < len(cases):
        # index map: global op index -> (case index, op index in case)
        owners = []
        with tempfile.NamedTemporaryFile('w', dir=TMP, suffix='.in', delete=False) as fin:
            for ci in range(start, len(cases)):
                for oi, op in enumerate(cases[ci]['ops']):
                    fin.write(json.dumps(op, ensure_ascii=False, separators=(',', ':')))
                    fin.write('\n')
                    owners.append((ci, oi))
            in_path = fin.name
        out_path = in_path[:-3] + '.out'
        err_path = in_path[:-3] + '.err'
        n_ops = len(owners)
        # wall-clock guard around the whole chunk: generous, and its firing is a harness condition (inconclusive), never a
        # verdict - hangs are detected by the driver's own CPU-time watchdog per operation
        wt = wall_timeout if wall_timeout is not None else max(900, 300 + n_ops * 0.25 + op_timeout * 4)
        timed_out = False
        with open(in_path, 'rb') as fi, open(out_path, 'wb') as fo, open(err_path, 'wb') as fe:
            proc = subprocess.Popen([driver], stdin=fi, stdout=fo, stderr=fe, env=env)
            try:
                rc = proc.wait(timeout=wt)
            except subprocess.TimeoutExpired:
                proc.kill()
                rc = proc.wait()
                timed_out = True
        with open(out_path, 'r', encoding='utf-8', errors='replace') as f:
            out_lines = f.read().split('\n')
        with open(err_path, 'r', encoding='utf-8', errors='replace') as f:
            err_text = f.read()
        for p in (in_path, out_path, err_path):
            try:
                os.unlink(p)
            except OSError:
                pass
        begun = -1
        done = -1
        hang_at = None
        for line in out_lines:
            if line.startswith('E '):
                done = begun
                ci, _oi = owners[begun]
                try:
                    results[ci].events.append(json.loads(line[2:]))
                except RecursionError:
                    # the call returned normally; its (adversarially nested) result is too deep for the Python JSON decoder
                    results[ci].events.append({'opaque': 'result nested too deeply to decode', 'has': False, 'ok': False, 'errors': [], 'type_errors': []})
                except ValueError:
                    results[ci].events.append({'harness_error': 'unparsable event', 'raw': line[:400]})
            elif line.startswith('B '):
                begun = int(line[2:])
            elif line.startswith('T '):
                hang_at = int(line[2:])
        if done == n_ops - 1 and rc == 0:
            break
        # something went wrong at op `begun`
        if begun < 0:
            # driver failed to start: harness failure for everything
            for ci in range(start, len(cases)):
                results[ci].death = {'kind': 'harness', 'key': 'harness:driver-start', 'text': err_text[-2000:], 'op_index': 0}
            break
        if done == n_ops - 1:
            # died at exit (after all ops): attribute to the last case
            bad_ci = owners[-1][0]
            bad_oi = owners[-1][1]
        else:
            bad_ci, bad_oi = owners[begun]
        res = results[bad_ci]
        if hang_at is not None:
            res.hang = True
            res.stderr = err_text[-2000:]
            res.death = None
        elif timed_out:
            res.death = {'kind': 'harness', 'key': 'harness:wall-clock-guard', 'op_index': bad_oi,
                         'text': f'the driver process did not finish {n_ops} operations within {wt:.0f} s of wall-clock (machine overloaded or process blocked); no verdict'}
        else:
            kind, key, text = classify_death(err_text, rc)
            res.death = {'kind': kind, 'key': key, 'text': text, 'op_index': bad_oi}
        # events of cases after bad_ci in this run are incomplete: discard and re-run them
        for ci in range(bad_ci + 1, len(cases)):
            results[ci].events = []
        start = bad_ci + 1
    return results


# --------------------------------------------------------------------------------------------
# shard results
# --------------------------------------------------------------------------------------------

class ShardResult:
    def __init__(self):
        self.counters = collections.Counter()
        self.coverage = collections.Counter()   # construct/op coverage tables
        self.distinct = set()                   # 8-byte hashes of distinct non-trivial judged cases
        self.violations = []                    # dict(key, msg, case)
        self.samples = []
        self.errors = []                        # harness errors (strings)

    def count(self, name, n=1):
        self.counters[name] += n

    def cover(self, name, n=1):
        self.coverage[name] += n

    def judged(self, canonical, nontrivial=True):
        self.counters['judged'] += 1
        if nontrivial:
            h = hashlib.blake2b(canonical.encode('utf-8', 'surrogatepass') if isinstance(canonical, str) else canonical,
                                digest_size=8).digest()
            self.distinct.add(h)

    def violation(self, key, msg, cs, extra=None):
        self.counters['violations_raw'] += 1
        if len(self.violations) < 400:
            self.violations.append({'key': key, 'msg': msg, 'case': cs, 'extra': extra})

    def sample(self, obj, limit=3):
        if len(self.samples) < limit:
            self.samples.append(obj)

    def harness_error(self, text):
        self.counters['harness_errors'] += 1
        if len(self.errors) < 20:
            self.errors.append(text)


def std_death_checks(res, prop, cs, cr, allow_json_exc=False):
    """Common monitor part: sanitizer death / hang / harness error / escaped exception.

    Returns True when the case completed and may be judged further."""
    if cr.death is not None:
        if cr.death['kind'] == 'harness':
            res.harness_error(cr.death['text'])
            return False
        res.count('deaths')
        res.violation(f"{prop}/fault/{cr.death['key']}", cr.death['text'][-3000:], cs,
                      extra={'op_index': cr.death['op_index']})
        return False
    if cr.hang:
        res.count('hangs')
        res.violation(f'{prop}/hang', 'driver op exceeded the per-op watchdog', cs)
        return False
    if len(cr.events) != len(cs['ops']):
        res.harness_error(f'event count mismatch {len(cr.events)} != {len(cs["ops"])}')
        return False
    ok = True
    for op, ev in zip(cs['ops'], cr.events):
        if 'harness_error' in ev:
            res.harness_error(ev['harness_error'])
            ok = False
        elif 'exc' in ev:
            if ev['exc'].get('json') and allow_json_exc:
                continue
            res.count('escaped_exceptions')
            res.violation(f"{prop}/exception/{ev['exc']['type']}@{op['op']}", json.dumps(ev['exc'])[:500], cs)
            ok = False
    return ok


# --------------------------------------------------------------------------------------------
# top-level check runner
# --------------------------------------------------------------------------------------------

def load_known():
    p = os.path.join(VERIF, 'known_findings.json')
    try:
        with open(p) as f:
            return json.load(f)
    except FileNotFoundError:
        return {'findings': [], 'fixed': []}


def _run_shard(args):
    modname, desc, driver, tier, seed = args
    import importlib
    mod = importlib.import_module(modname)
    try:
        r = mod.run_shard(desc, Env(driver, tier, seed, mod.PROP))
    except Exception:
        r = ShardResult()
        r.harness_error('shard crashed: ' + traceback.format_exc()[-3000:])
    return r


class Env:
    def __init__(self, driver, tier, seed, prop):
        self.driver = driver
        self.tier = tier
        self.seed = seed
        self.prop = prop

    def rng(self, *shard):
        return random.Random(f'{self.prop}:{self.seed}:' + ':'.join(str(s) for s in shard))

    def execute(self, cases, op_timeout=None, chunk=400):
        """Run cases through the driver (chunked) and yield (case, CaseResult)."""
        if op_timeout is None:
            op_timeout = 20 if self.tier == 'quick' else 60
        for i in range(0, len(cases), chunk):
            part = cases[i:i + chunk]
            results = run_driver(self.driver, part, op_timeout=op_timeout)
            # hang: re-run the case alone once before reporting (guidance: re-run once)
            for cs, cr in zip(part, results):
                if cr.hang:
                    again = run_driver(self.driver, [cs], op_timeout=op_timeout * 2)[0]
                    yield cs, again
                else:
                    yield cs, cr


def main_check(mod, argv=None):
    import argparse
    ap = argparse.ArgumentParser()
    ap.add_argument('--tier', default=os.environ.get('VERIF_TIER', 'quick'), choices=['quick', 'thorough'])
    ap.add_argument('--replay', default=None)
    ap.add_argument('--jobs', type=int, default=int(os.environ.get('VERIF_JOBS', '16')))
    args = ap.parse_args(argv)
    seed = int(os.environ.get('VERIF_SEED', '1'))
    prop = mod.PROP
    t0 = time.time()
    sys.path.insert(0, os.path.join(VERIF, 'tools'))
    import build as buildmod
    try:
        driver = buildmod.build('san')
    except SystemExit:
        print(f'[{prop}] HARNESS FAILURE: build failed', flush=True)
        return 2
    with open(os.path.join(os.path.dirname(driver), 'tree_hash')) as f:
        tree_hash = f.read().strip()
    total = ShardResult()
    if args.replay:
        with open(args.replay) as f:
            rp = json.load(f)
        env = Env(driver, args.tier, rp.get('seed', seed), prop)
        r = mod.replay(rp['case'], env)
        results = [r]
        tier = args.tier
    else:
        descs = mod.shards(args.tier, seed)
        work = [(mod.__name__, d, driver, args.tier, seed) for d in descs]
        results = []
        if args.jobs <= 1:
            for w in work:
                results.append(_run_shard(w))
        else:
            with ProcessPoolExecutor(max_workers=args.jobs) as ex:
                for r in ex.map(_run_shard, work):
                    results.append(r)
        tier = args.tier
    for r in results:
        total.counters.update(r.counters)
        total.coverage.update(r.coverage)
        total.distinct |= r.distinct
        total.violations.extend(r.violations)
        total.errors.extend(r.errors)
        for s in r.samples:
            total.sample(s, limit=8)
    known = load_known()
    known_keys = {(k['property'], k['key']): k for k in known.get('findings', [])}
    seen_known = {}
    new = {}
    for v in total.violations:
        kk = (prop, v['key'])
        if kk in known_keys:
            seen_known.setdefault(v['key'], v)
        else:
            new.setdefault(v['key'], v)
    for key, v in sorted(seen_known.items()):
        print(f"KNOWN-FINDING: property={prop} {known_keys[(prop, key)]['what']} [key={key}]")
    rc = 0
    replay_paths = []
    if new and not args.replay:
        os.makedirs(os.path.join(VERIF, 'replays', prop), exist_ok=True)
    for key, v in sorted(new.items()):
        if args.replay:
            path = args.replay
        else:
            body = json.dumps({'property': prop, 'seed': seed, 'tier': tier, 'key': key, 'msg': v['msg'],
                               'extra': v.get('extra'), 'case': v['case']}, ensure_ascii=False, indent=1)
            sha = hashlib.sha256(key.encode()).hexdigest()[:12]
            path = os.path.join(VERIF, 'replays', prop, f'{sha}.json')
            with open(path, 'w') as f:
                f.write(body)
        replay_paths.append(path)
        print(f'VIOLATION property={prop} replay={path}')
        print(f'  key={key}')
        print('  ' + str(v['msg'])[:1500].replace('\n', '\n  '))
        rc = 1
    wall = time.time() - t0
    judged = total.counters.get('judged', 0)
    min_judged = getattr(mod, 'MIN_JUDGED', {}).get(tier, 1)
    harness_fail = False
    if total.errors:
        print(f'[{prop}] HARNESS ERRORS ({total.counters["harness_errors"]}):')
        for e in total.errors[:5]:
            print('   ' + e[:1500].replace('\n', '\n   '))
        harness_fail = True
    if not args.replay and judged < min_judged:
        print(f'[{prop}] INCONCLUSIVE: only {judged} judged events (< {min_judged})')
        harness_fail = True
    if not args.replay:
        write_evidence(mod, prop, tier, seed, total, wall, len(new), sorted(seen_known), tree_hash)
    cov = ', '.join(f'{k}={v}' for k, v in sorted(total.counters.items()))
    print(f'[{prop}] tier={tier} seed={seed} judged={judged} distinct_nontrivial={len(total.distinct)} '
          f'violations={len(new)} known={len(seen_known)} wall={wall:.1f}s')
    print(f'[{prop}] counters: {cov}')
    if rc == 0 and harness_fail:
        return 2
    return rc


def write_evidence(mod, prop, tier, seed, total, wall, n_viol, known_seen, tree_hash):
    # evidence/ describes runs against /repo; runs against another tree (VERIF_REPO: seeded changes in a scratch worktree)
    # leave it alone and write next to the build cache instead
    other_tree = os.path.realpath(os.environ.get('VERIF_REPO', '/repo')) != '/repo'
    ev_dir = os.path.join(VERIF, '.cache', 'tmp', 'evidence-other-tree') if other_tree else os.path.join(VERIF, 'evidence')
    os.makedirs(ev_dir, exist_ok=True)
    cov = {
        'evaluations': int(total.counters.get('judged', 0)),
        'distinct_nontrivial': len(total.distinct),
        'rule': getattr(mod, 'RULE', ''),
        'samples': total.samples[:8],
        'counters': dict(sorted(total.counters.items())),
        'constructs_covered': dict(sorted(total.coverage.items())),
        'unspecified': int(total.counters.get('unspecified', 0)),
        'inconclusive': int(total.counters.get('inconclusive', 0)),
        'sanitizer_deaths': int(total.counters.get('deaths', 0)),
        'known_findings_seen': known_seen,
        'variant': 'san (g++ -O1 -fsanitize=address,undefined -fno-sanitize-recover=all -D_GLIBCXX_ASSERTIONS)',
        'tree_hash': tree_hash,
    }
    ex = getattr(mod, 'EXHAUSTIVE', None)
    if ex:
        cov['exhaustive_subspaces'] = ex
    ev = {
        'property_id': prop,
        'tier': tier,
        'seed': seed,
        'level': 'exploration',
        'coverage': cov,
        'assumptions': getattr(mod, 'ASSUMPTIONS', []),
        'wall_s': round(wall, 2),
        'violations': n_viol,
    }
    with open(os.path.join(ev_dir, f'{prop}.json'), 'w') as f:
        json.dump(ev, f, ensure_ascii=False, indent=1)
        f.write('\n')
