"""C08 — renaming rewrites all and only the mentions of a name and preserves meaning."""
import re

from . import core
from . import formgen as fg
from . import refmodel as rm
from . import rslex

PROP = 'C08'
RULE = ('three monitors. (1) text level, formal: TranslateRS / SubstituteGlobals on token soups and rendered expressions '
        '(identifiers glued to multi-byte operators, Greek locals, Cyrillic prose, prefix-related names X1/X11/X1_1, keywords '
        'Pr1,2 / Fi1 / R1 / card, newlines) with random maps (chains, swaps, identity entries, longer/shorter/multi-byte new '
        'names); expected text and replacement count come from a reference model of the lexical grammar (longest match, rule '
        'order) with simultaneous whole-token substitution. (2) text level, references: ManagedText::TranslateRaw on texts with '
        'references in canonical and non-canonical spelling (blanks, unknown/duplicate tags, legacy fields), multi-byte text '
        'around them; expected by the reference scanner of C17. (3) schema level: seeded histories; at every successful '
        'SetAliasFor(substitute) and ResetAliases the snapshot after is compared with the snapshot before under the alias map: '
        'definitions and conventions = model translation, raw terms / text definitions = reference translation, everything '
        'else byte-identical; and when no introduced name was mentioned unresolved before: same dependency edges, status, '
        'value class, typification / arguments / syntax tree up to the substitution. Distinct = hash of (text, map) or script.')
ASSUMPTIONS = ['the reference lexer is written from the grammar description (MathLexerImpl.l): a disagreement on token boundaries would show as a false alarm, not as a miss',
               'texts are well-formed UTF-8 (byte-level robustness of the string layer is C20)',
               'texts whose reference boundaries are ambiguous (nested / unbalanced markers) are not judged on references']
MIN_JUDGED = {'quick': 4000, 'thorough': 80000}
NSH = 16
IDENT = re.compile(r'(?<![A-Za-z0-9_α-ω])([XCSDAFPT][0-9]+)(?![A-Za-z0-9_α-ω])')

NAMES = ['X1', 'X11', 'X12', 'X2', 'X21', 'D1', 'D11', 'D2', 'S1', 'C1', 'A1', 'T1', 'F1', 'F11', 'P1', 'P2', 'X1_1', 'X1a', 'Xα', 'D1α', 'Zβ', 'Z1', 'I1', 'Ra', 'R1', 'B1']
LOCALS = ['x', 'x1', 'a', 'α', 'α1', 'ξ', '_t', 'y_1', 'card1', 'prx', 'xX1', 'aD1', 'σ', 'ab']
PIECES = ['ℬ', '×', '∪', '∩', '\\', '∈', '∉', ':∈', ':=', ':==', '::=', '∀', '∃', '⊆', '(', ')', '{', '}', '[', ']', '|', ',', ';', ' ', '  ', '\t', '\n', '=', '≠', '¬', '&', '∨',
          '⇒', '∅', 'Z', 'D', 'R', 'I', 'B', 'card', 'bool', 'red', 'debool', 'Pr1', 'Pr1,2', 'pr2', 'Fi1,2', 'Fi1', 'Pr', 'pr', 'Fi', '1', '12', '2147483648', '0',
          'и', 'множество ', 'Ж', '€', '😀', '.', '!', '@', '#', '_', "'", '"', 'é', '∆', '+', '-', '*', '<', '>', '≥', '≤', '⇔', '⊂', '⊄', '\r']


def shards(tier, seed):
    return [{'kind': 'rs', 'i': i} for i in range(NSH)] + [{'kind': 'ref', 'i': i} for i in range(NSH // 2)] + [{'kind': 'schema', 'i': i} for i in range(NSH)]


# ------------------------------------------------------------------------------------------------ (1) formal text
def soup(rnd):
    n = rnd.choice([1, 2, 3, 5, 8, 13, 21])
    glue = rnd.choice(['', '', ' ', None])
    out = []
    for _ in range(n):
        r = rnd.random()
        if r < 0.4:
            out.append(rnd.choice(NAMES[:14] if rnd.random() < 0.7 else NAMES))
        elif r < 0.5:
            out.append(rnd.choice(LOCALS))
        else:
            out.append(rnd.choice(PIECES))
        if glue is None:
            out.append(rnd.choice(['', '', ' ']))
        else:
            out.append(glue)
    return ''.join(out)


EXPR = ['D{ξ∈X1 | ∃α∈X11 (ξ,α)∈S1}', 'X1×X11∪X1\\X2', 'ℬ(X1×ℬ(X11))', 'F1[X1, F11[X1]]∪P1[D1]', '∀x1∈X1 ∃x11∈X11 x1=x11', 'I{(a,b) | a:∈X1; b:=a∪D1; P2[b]}',
        'R{ξ:=X1 | ξ∪D11}', 'Pr1,2(S1)∪pr1(debool(D1))', '[α∈ℬ(R1), β∈X1] α∪{β}', 'card(X1)+card(X11)*2', 'Fi1,2[X1,X2](S1)', 'D1:==X1∪X1', 'S1::=ℬ(X1×X1)',
        'red(ℬℬ(X1))∩bool(X1)', 'X1 используется в D1 и D11 (см. X1)', 'X1,X11;X1|X1}X1{X1[X1]X1', 'ℬX1×X11ℬ', '∅X1∅', 'X1∈X1∉X1⊆X1']


def rs_case(rnd):
    text = soup(rnd) if rnd.random() < 0.7 else rnd.choice(EXPR)
    if rnd.random() < 0.2:
        text = text + rnd.choice(EXPR)
    present = sorted(rslex.mentioned(text, rslex.IDENTIFIERS)) or ['X1']
    mapping = {}
    pool = NAMES + LOCALS + ['X100', 'X0', 'D999999', 'Xℬ', 'Q', '', 'X1 X2', 'ж']
    style = rnd.choice(['single', 'multi', 'swap', 'chain', 'identity', 'absent'])
    if style == 'single':
        mapping[rnd.choice(present)] = rnd.choice(pool)
    elif style == 'multi':
        for _ in range(rnd.randint(2, 5)):
            mapping[rnd.choice(present if rnd.random() < 0.7 else pool[:-4])] = rnd.choice(pool)
    elif style == 'swap':
        a, b = rnd.choice(present), rnd.choice(present + ['X11', 'X1'])
        mapping[a], mapping[b] = b, a
    elif style == 'chain':
        a = rnd.choice(present)
        b = rnd.choice(present + ['X2', 'X11'])
        c = rnd.choice(pool)
        mapping[a], mapping[b] = b, c
    elif style == 'identity':
        a = rnd.choice(present)
        mapping[a] = a
        mapping[rnd.choice(present)] = rnd.choice(pool)
    else:
        mapping[rnd.choice(['X9', 'X', '1', 'ℬ', 'card', 'Pr1', 'R1', 'x9'])] = rnd.choice(pool)
    idents = rnd.random() < 0.3
    return core.case([{'op': 'rs.translate', 'text': text, 'map': mapping, 'idents': idents}], kind='rs')


def judge_rs(res, cs, cr):
    op, ev = cs['ops'][0], cr.events[0]
    kinds = rslex.IDENTIFIERS if op['idents'] else rslex.GLOBALS
    want, count = rslex.translate(op['text'], op['map'], kinds)
    got = ev['text'] if isinstance(ev['text'], str) else None
    res.count('judged', 2)
    toks = rslex.tokens(op['text'])
    res.cover('rs:idents' if op['idents'] else 'rs:globals')
    if count:
        res.cover('rs:replaced')
    if any(k in kinds and (op['text'][a:b] not in op['map']) and any(op['text'][a:b].startswith(m) or m.startswith(op['text'][a:b]) for m in op['map'] if m)
           for k, a, b in toks):
        res.cover('rs:prefix-related-name-untouched')
    if got != want:
        res.violation(f'{PROP}/text/translate-output', f"TranslateRS({op['text']!r}, {op['map']}, idents={op['idents']}) -> {ev['text']!r}, expected {want!r}", cs)
    elif ev['count'] != count:
        res.violation(f'{PROP}/text/translate-count', f"TranslateRS({op['text']!r}, {op['map']}) reports {ev['count']} replacements, expected {count}", cs)
    res.judged(repr((op['text'], sorted(op['map'].items()), op['idents'])), nontrivial=count > 0)
    res.counters['judged'] -= 1
    if count >= 2:
        res.sample({'text': op['text'], 'map': op['map'], 'result': want, 'replacements': count}, limit=1)


# ------------------------------------------------------------------------------------------------ (2) references
REFS = ['@{X1|nomn,sing}', '@{X1|nomn, sing}', '@{X1| nomn,sing }', '@{X1|sing,nomn}', '@{X11|plur,gent}', '@{X1|nomn,nomn}', '@{X1|nomn,foo}', '@{X1|nomn|sing}',
        '@{X1|nomn|sing|1}', '@{D1|datv}', '@{-1|зависимый}', '@{1|часть}', '@{X1|}', '@{X1}', '@{X1|foo}', '@{ X1|nomn}', '@{X1 |nomn}', '@{Xα|nomn}', '@{X1|nomn,\tsing}',
        '@{X1|NOUN,sing,nomn}', '@{X1|nomn,sing', '@{@{X1|nomn}|sing}', '@@{X1|nomn}', '@{X2|ablt,plur}']
FILL = ['', ' ', 'пара ', ' - ', 'множество ℬ ', '€ и 😀 ', 'X1 ', '}', '{', '@', 'a', '\n', 'термин α×β ']


def ref_case(rnd):
    text = ''.join(rnd.choice(FILL) + rnd.choice(REFS) for _ in range(rnd.choice([1, 2, 3, 4]))) + rnd.choice(FILL)
    style = rnd.choice(['single', 'swap', 'chain', 'multi'])
    if style == 'single':
        mapping = {rnd.choice(['X1', 'X11', 'D1', 'X2', 'Xα']): rnd.choice(['X7', 'X100', 'X1', 'X11', 'Dβ', 'X'])}
    elif style == 'swap':
        mapping = {'X1': 'X11', 'X11': 'X1'}
    elif style == 'chain':
        mapping = {'X1': 'X2', 'X2': 'X3'}
    else:
        mapping = {'X1': 'X21', 'D1': 'D2', 'X11': 'X1'}
    ops = [{'op': 'mtext.step', 't': 't', 'k': 'ctor', 'raw': text}, {'op': 'mtext.step', 't': 't', 'k': 'translateraw', 'map': mapping}]
    return core.case(ops, kind='ref', text=text, map=mapping)


def judge_ref(res, cs, cr):
    text, mapping = cs['meta']['text'], cs['meta']['map']
    ev = cr.events[-1]
    want, specified = rm.translate_raw(text, mapping)
    if not specified:
        res.count('unspecified')
        return
    res.count('judged', 1)
    res.cover('ref:translate')
    if want != text:
        res.cover('ref:changed')
    if ev['raw'] != want:
        res.violation(f'{PROP}/text/reference-translate', f"TranslateRaw({text!r}, {mapping}) -> {ev['raw']!r}, expected {want!r}", cs)
    res.judged(repr((text, sorted(mapping.items()))), nontrivial=want != text)
    res.counters['judged'] -= 1


# ------------------------------------------------------------------------------------------------ (3) schema level
WEIGHTS = {'setalias': 30, 'resetaliases': 8, 'setexpr': 16, 'emplace': 12, 'setterm': 8, 'setdef': 8, 'setconv': 10, 'erase': 4, 'move': 3, 'insertcopy_rec': 5,
           'insertcopy_bulk_rec': 2, 'settermform': 1, 'track': 1, 'stoptrack': 0, 'updatestate': 0, 'dedup': 0, 'insertcopy_from': 2, 'insertcopy_bulk_from': 1}
CONVS = ['', 'соглашение', 'uses $[%d] and $[%d]', '$[%d]∪$[%d]ℬ$[%d]', 'см. $[%d], а также $[%d]1 и x$[%d]', 'ℬ$[%d]×$[%d]', '$[%d] $[%d]_1 D{ξ∈$[%d] | 1=1}']
TEXTS = ['@{$[%d]|nomn, sing} и @{$[%d]|plur,gent}', 'пара @{$[%d]| nomn,sing } - @{$[%d]|nomn,sing}', '@{$[%d]|nomn,foo} ℬ @{$[%d]|datv}', '$[%d] без ссылки @{$[%d]|nomn|sing}',
         '@{$[%d]|nomn,nomn}', '😀@{$[%d]|ablt}€']


def schema_case(rnd, hist_id):
    ops = [{'op': 'env.processor', 'mode': 'tagging'}, {'op': 'form.seed', 'seed': hist_id}]
    ops += fg.seed_ops(rnd, 'b', n_base=2, n_derived=3)
    pre = fg.seed_ops(rnd, 'a', n_base=rnd.choice([1, 2, 3]), n_derived=rnd.choice([3, 5, 8]))
    ops += pre
    ops.append({'op': 'form.op', 'f': 'a', 'k': 'updatestate', 'snap': True})
    for _ in range(rnd.randint(8, 40)):
        span = rnd.choice([6, 10, 14])
        r = rnd.random()
        if r < 0.12:
            op = {'op': 'form.op', 'f': 'a', 'k': 'setconv', 'uid': {'idx': rnd.randrange(span)}, 'text': fg.fill(rnd, rnd.choice(CONVS), span, dangling=0.1)}
        elif r < 0.24:
            kk = rnd.choice(['setterm', 'setdef'])
            target = rnd.randrange(span)
            # term texts with two references point only at constituents BEFORE their own: a term that reaches itself twice through
            # term references doubles its resolved text with every refresh (outside this property; it only stalls the workload)
            span_t = target if kk == 'setterm' else span
            op = {'op': 'form.op', 'f': 'a', 'k': kk, 'uid': {'idx': target},
                  'text': fg.fill(rnd, rnd.choice(TEXTS), span_t, dangling=0.1) if span_t > 0 else rnd.choice(['термин', '@{X77|nomn}'])}
        elif r < 0.34:
            # rename to a name that is a prefix / extension of another one, or one in use elsewhere
            op = {'op': 'form.op', 'f': 'a', 'k': 'setalias', 'uid': {'idx': rnd.randrange(span)}, 'subst': True,
                  'alias': rnd.choice(['X11', 'X12', 'D11', 'D10', 'X10', 'S11', 'F11', 'P11', 'X1', 'D1', 'X2', 'X21', 'C11', 'A11', 'T11', 'D100'])}
        else:
            op = fg.edit_op(rnd, 'a', span=span, other='b', weights=WEIGHTS)
            if op['k'] == 'setalias':
                op['subst'] = rnd.random() < 0.85
        op['snap'] = True
        ops.append(op)
    return core.case(ops, kind='schema')


def unresolved_names(snap):
    aliases = {it['alias'] for it in snap['items'].values()}
    out = set()
    for it in snap['items'].values():
        out |= {m for m in rslex.mentioned(it['def']) if m not in aliases}
        for raw in (it['term_raw'], it['text_raw']):
            if isinstance(raw, str):
                refs, _ = rm.referals(raw)
                out |= {e for e in refs if e not in aliases}
    return out


def sub_ident(text, amap):
    if not isinstance(text, str):
        return text
    return IDENT.sub(lambda m: amap.get(m.group(1), m.group(1)), text)


def judge_schema(res, cs, cr):
    prev = None
    renames = 0
    trace = []
    for idx, (op, ev) in enumerate(zip(cs['ops'], cr.events)):
        if op['op'] != 'form.op' or op['f'] != 'a' or 'snap' not in ev:
            continue
        k = op['k']
        snap = ev['snap']
        trace.append({x: y for x, y in op.items() if x not in ('op', 'f', 'snap')})
        before = prev
        prev = snap
        if before is None:
            continue
        ret = ev.get('ret')
        if not ((k == 'setalias' and ret is True and op.get('subst')) or k == 'resetaliases'):
            continue
        if sorted(before['items']) != sorted(snap['items']) or before['list'] != snap['list']:
            res.violation(f'{PROP}/schema/constituents-changed:{k}', f"renaming changed the set or order of constituents: {before['list']} -> {snap['list']}", cs)
            return
        amap = {before['items'][u]['alias']: snap['items'][u]['alias'] for u in before['items'] if before['items'][u]['alias'] != snap['items'][u]['alias']}
        if not amap:
            continue
        renames += 1
        res.cover('rename:' + k)
        if k == 'setalias' and len(amap) != 1:
            res.violation(f'{PROP}/schema/other-alias-changed', f'SetAliasFor changed aliases {amap}', cs)
            return
        if len(amap) > 1 and any(v in amap for v in amap.values()):
            res.cover('rename:chain-or-swap')
        bad = None
        introduced = set(amap.values()) - set(amap)
        dangling_before = unresolved_names(before)
        captured = introduced & dangling_before
        if captured:
            res.count('unspecified')
            res.cover('rename:captures-unresolved-name')
        for u, b in before['items'].items():
            a = snap['items'][u]
            who = f"{b['alias']}->{a['alias']}"
            for f in ('def', 'conv'):
                want, _n = rslex.translate(b[f], amap)
                res.count('judged')
                if a[f] != want:
                    bad = bad or (f'{f}-rewrite:{k}', f"{who}: {f} {b[f]!r} became {a[f]!r}, expected {want!r} under {amap}")
            for f in ('term_raw', 'text_raw'):
                if not isinstance(b[f], str):
                    continue
                want, specified = rm.translate_raw(b[f], amap)
                if not specified:
                    res.count('unspecified')
                    continue
                res.count('judged')
                if a[f] != want:
                    bad = bad or (f'{f}-rewrite:{k}', f"{who}: {f} {b[f]!r} became {a[f]!r}, expected {want!r} under {amap}")
            for f in ('type', 'forms', 'track', 'talias'):
                want = b[f] if f != 'talias' else amap.get(b[f], b[f])
                if a.get(f) != want:
                    bad = bad or (f'{f}-changed:{k}', f"{who}: {f} {b.get(f)!r} became {a.get(f)!r}")
            if captured:
                continue
            res.count('judged', 6)
            if sorted(a['inputs']) != sorted(b['inputs']):
                bad = bad or (f'dependencies:{k}', f"{who} := {a['def']!r}: dependency edges {sorted(b['inputs'])} became {sorted(a['inputs'])}")
            if sorted(a['term_inputs']) != sorted(b['term_inputs']):
                bad = bad or (f'term-dependencies:{k}', f"{who}: term reference edges {sorted(b['term_inputs'])} became {sorted(a['term_inputs'])}")
            if a['status'] != b['status'] or a['vclass'] != b['vclass']:
                bad = bad or (f'status:{k}', f"{who} := {a['def']!r}: status/value class {b['status']}/{b['vclass']} became {a['status']}/{a['vclass']}")
            if sub_ident(b['typ'], amap) != a['typ'] or sub_ident(repr(b['args']), amap) != repr(a['args']):
                bad = bad or (f'typification:{k}', f"{who}: type {b['typ']!r} {b['args']!r} became {a['typ']!r} {a['args']!r}")
            if sub_ident(b['ast'], amap) != a['ast']:
                bad = bad or (f'syntax-tree:{k}', f"{who}: tree {b['ast']!r} became {a['ast']!r}")
        if bad:
            defs = [(it['alias'], it['def']) for it in before['items'].values()]
            res.violation(f'{PROP}/schema/{bad[0]}', f"after {trace[-1]} (ret {ret}): {bad[1]}; schema before {defs}", {'ops': cs['ops'][:idx + 1], 'meta': {'kind': 'schema'}})
            return
    res.judged(repr(cs['ops']), nontrivial=renames >= 1)
    res.counters['judged'] -= 1
    res.count('histories')
    if renames >= 2:
        res.sample({'ops': trace[:8], 'renames': renames}, limit=1)


def judge(res, cs, cr):
    if not core.std_death_checks(res, PROP, cs, cr):
        return
    {'rs': judge_rs, 'ref': judge_ref, 'schema': judge_schema}[cs['meta']['kind']](res, cs, cr)


def run_shard(desc, env):
    res = core.ShardResult()
    rnd = env.rng('c08', desc['kind'], desc['i'])
    big = env.tier != 'quick'
    if desc['kind'] == 'rs':
        cases = [rs_case(rnd) for _ in range(20000 if big else 1500)]
        chunk = 500
    elif desc['kind'] == 'ref':
        cases = [ref_case(rnd) for _ in range(8000 if big else 600)]
        chunk = 200
    else:
        cases = [schema_case(rnd, desc['i'] * 100000 + k) for k in range(600 if big else 40)]
        chunk = 8
    for cs, cr in env.execute(cases, chunk=chunk):
        judge(res, cs, cr)
    return res


def replay(cs, env):
    res = core.ShardResult()
    for c, cr in env.execute([cs]):
        judge(res, c, cr)
    return res
