// C14: ccl::graph::CGraph / UpdatableGraph
#include "drv.h"

#include "ccl/graph/CGraph.h"

#include <map>
#include <memory>

using drv::json;
using ccl::EntityUID;
using ccl::graph::CGraph;
using ccl::graph::UpdatableGraph;

namespace {

struct GraphBox {
  std::shared_ptr<std::map<EntityUID, CGraph::UnorderedItems>> feed =
    std::make_shared<std::map<EntityUID, CGraph::UnorderedItems>>();
  std::unique_ptr<UpdatableGraph> graph;

  GraphBox() {
    auto feedCopy = feed;
    graph = std::make_unique<UpdatableGraph>([feedCopy](EntityUID uid) {
      const auto it = feedCopy->find(uid);
      return it == feedCopy->end() ? CGraph::UnorderedItems{} : it->second;
    });
  }
};

std::map<std::string, GraphBox>& Graphs() {
  static std::map<std::string, GraphBox> graphs;
  return graphs;
}

CGraph::UnorderedItems SetOf(const json& j) {
  CGraph::UnorderedItems out;
  for (const auto& x : j) {
    out.insert(x.get<EntityUID>());
  }
  return out;
}

json SortedJ(const CGraph::UnorderedItems& items) {
  std::vector<EntityUID> v(items.begin(), items.end());
  std::sort(v.begin(), v.end());
  return v;
}

json Query(const UpdatableGraph& g, const json& universe, const json& subsets) {
  json out = json::object();
  out["items"] = g.ItemsCount();
  out["conns"] = g.ConnectionsCount();
  out["hasloop"] = g.HasLoop();
  out["broken"] = g.IsBroken();
  json contains = json::array();
  json inputs = json::array();
  for (const auto& u : universe) {
    const auto uid = u.get<EntityUID>();
    contains.push_back(g.Contains(uid));
    inputs.push_back(SortedJ(g.InputsFor(uid)));
  }
  out["contains"] = contains;
  out["inputs"] = inputs;
  json edges = json::array();
  json reach = json::array();
  for (const auto& s : universe) {
    json erow = json::array();
    json rrow = json::array();
    for (const auto& d : universe) {
      erow.push_back(g.ConnectionExists(s.get<EntityUID>(), d.get<EntityUID>()));
      rrow.push_back(g.IsReachableFrom(d.get<EntityUID>(), s.get<EntityUID>()));
    }
    edges.push_back(erow);
    reach.push_back(rrow);
  }
  out["edges"] = edges;   // edges[s][d]
  out["reach"] = reach;   // reach[s][d] = IsReachableFrom(dest=d, source=s)
  json loops = json::array();
  for (const auto& group : g.GetAllLoopsItems()) {
    loops.push_back(SortedJ(group));
  }
  out["loops"] = loops;
  out["topo"] = g.TopologicalOrder();
  out["invtopo"] = g.InverseTopologicalOrder();
  json subs = json::array();
  for (const auto& sub : subsets) {
    const auto set = SetOf(sub);
    json one = json::object();
    one["out"] = SortedJ(g.ExpandOutputs(set));
    one["in"] = SortedJ(g.ExpandInputs(set));
    one["sort"] = g.Sort(set);
    subs.push_back(one);
  }
  out["subsets"] = subs;
  return out;
}

}  // namespace

DRV_OP(OpGraphStep, "graph.step") {
  const auto name = a.at("g").get<std::string>();
  json out = json::object();
  if (a.contains("mut")) {
    const auto& m = a["mut"];
    const auto kind = m.at("k").get<std::string>();
    if (kind == "new") {
      Graphs().erase(name);
      Graphs()[name];
    } else if (kind == "copy") {
      // value semantics of CGraph: copy-construct from another handle (slices the updatable part)
      const auto& src = Graphs().at(m.at("from").get<std::string>());
      Graphs().erase(name);
      auto& dst = Graphs()[name];
      static_cast<CGraph&>(*dst.graph) = static_cast<const CGraph&>(*src.graph);
      *dst.feed = *src.feed;
    } else {
      auto& box = Graphs().at(name);
      auto& g = *box.graph;
      if (kind == "add") {
        g.AddItem(m.at("u").get<EntityUID>());
      } else if (kind == "erase") {
        g.EraseItem(m.at("u").get<EntityUID>());
      } else if (kind == "conn") {
        g.AddConnection(m.at("s").get<EntityUID>(), m.at("d").get<EntityUID>());
      } else if (kind == "inputs") {
        g.SetItemInputs(m.at("u").get<EntityUID>(), SetOf(m.at("set")));
      } else if (kind == "clear") {
        g.Clear();
      } else if (kind == "feed") {
        (*box.feed)[m.at("u").get<EntityUID>()] = SetOf(m.at("set"));
      } else if (kind == "updatefor") {
        g.UpdateFor(m.at("u").get<EntityUID>());
      } else if (kind == "invalidate") {
        g.Invalidate();
      } else if (kind == "setvalid") {
        g.SetValid();
      } else {
        return json{ {"harness_error", "bad graph mutation " + kind} };
      }
    }
  }
  if (a.contains("universe")) {
    out["q"] = Query(*Graphs().at(name).graph, a["universe"], a.value("subsets", json::array()));
  }
  return out;
}

DRV_OP(OpGraphDrop, "graph.drop") {
  Graphs().erase(a.at("g").get<std::string>());
  return json::object();
}
