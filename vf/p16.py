"""C16 — compact data encoding round-trips; decoding malformed tables is safe."""
import itertools

from . import core
from . import sdmodel as sm

PROP = 'C16'
RULE = ('round trip: (typification, compatible value) pairs - all values of all types of depth <=2/arity 2 over a '
        '2-element base (systematic) plus seeded random types up to depth 5 with tuples nested in tuples and sets, '
        'empty sets at every position, lazy power-set/product values; FromSData then Unpack must give an equal value '
        '(checked by the library == and by the Python model). decode: every packed table is mutated (drop/duplicate/'
        'swap/truncate/extend rows, cells set to 0, -1, the unknown-count marker, INT_MIN/INT_MAX, off-by-one counts) '
        'and also decoded against OTHER typifications, plus purely random ragged tables; the monitor requires no fault '
        'and either nothing or a value that structurally conforms to the typification (every element checked in '
        'Python) and itself round-trips. Distinct = hash of (type, value) or (type, table); non-trivial = type depth '
        '>= 2 and value/table non-empty.')
ASSUMPTIONS = ['Python model of values and of structural conformance', 'set cardinalities stay far below the unknown-count marker']
EXHAUSTIVE = ['all values of all typifications of depth <=2 and arity 2 over base {1,2}']
MIN_JUDGED = {'quick': 20000, 'thorough': 400000}
NSH = 32
UNKNOWN = 10000000
SPECIAL = [0, 0, 1, -1, 2, 3, UNKNOWN, UNKNOWN, UNKNOWN - 1, 2147483647, -2147483648, 7, 100]


def to_t(t):
    if t[0] == 'e':
        return ('e', t[1])
    if t[0] == 's':
        return ('s', to_t(t[1]))
    return ('t', tuple(to_t(c) for c in t[1]))


def pack_case(t, model, spec, then=None):
    op = {'op': 'sdc.pack', 'type': sm.type_spec(t), 'spec': spec}
    meta = dict(kind='pack', t=t, type=sm.type_str(t), model=sm.enum_spec(model))
    if then:
        # then = [(step, t_k, model_k, spec_k)]: the SAME typification object is changed in place, then used again
        op['then'] = [dict(step, spec=sp) for step, _t, _m, sp in then]
        meta['then'] = [{'t': tk, 'type': sm.type_str(tk), 'model': sm.enum_spec(mk)} for _st, tk, mk, _sp in then]
    return core.case([op], **meta)


def rename_leaves(t, rnd, p):
    if t[0] == 'e':
        return ('e', 'R1') if rnd.random() < p else t
    if t[0] == 's':
        return ('s', rename_leaves(t[1], rnd, p))
    return ('t', tuple(rename_leaves(c, rnd, p) for c in t[1]))


def subst_type(t, name, by):
    if t[0] == 'e':
        return by if t[1] == name else t
    if t[0] == 's':
        return ('s', subst_type(t[1], name, by))
    return ('t', tuple(subst_type(c, name, by) for c in t[1]))


def unpack_case(t, data, origin):
    return core.case([{'op': 'sdc.unpack', 'type': sm.type_spec(t), 'data': data}],
                     kind='unpack', t=t, type=sm.type_str(t), origin=origin)


def judge(res, cs, cr):
    if not core.std_death_checks(res, PROP, cs, cr):
        return None
    meta = cs['meta']
    t = to_t(meta['t'])
    ev = cr.events[0]
    res.cover('depth:%d' % sm.type_depth(t))
    if meta['kind'] == 'pack':
        for k, (m2, ev2) in enumerate(zip(meta.get('then', []), ev.get('more', []))):
            # later packs through the same (changed in place) typification object: judged as packs of their own
            sub = {'ops': cs['ops'], 'meta': dict(kind='pack', t=m2['t'], type=m2['type'], model=m2['model'])}
            judge(res, sub, type('CR', (), {'events': [ev2], 'death': None, 'hang': False})())
            res.cover('typification-changed-in-place')
        if len(meta.get('then', [])) != len(ev.get('more', [])):
            res.harness_error('sdc.pack: steps missing in the reply')
        model = sm.from_obs(meta['model'])
        bad = None
        if ev['typestr'] != meta['type']:
            bad = ('type-string', f"Typification::ToString {ev['typestr']!r} expected {meta['type']!r}")
        elif not ev['compatible']:
            bad = ('compatible', f"CheckCompatible(value, type) false for a compatible value {sm.show(model)}")
        elif sm.from_obs(ev.get('val0', ev['val'])) != model:
            res.harness_error(f"value construction mismatch {ev['val']} vs {sm.show(model)}")
            return None
        elif not ev['back_has']:
            bad = ('roundtrip-nothing', f"Unpack(FromSData(v)) returned nothing; v={sm.show(model)} table={ev['data']}")
        elif sm.from_obs(ev['back']) != model or not ev['back_eq']:
            bad = ('roundtrip-differs', f"Unpack(FromSData(v)) = {sm.render(ev['back'])} expected {sm.show(model)}; table={ev['data']}")
        elif not ev['back_compatible'] or not ev['back2_same']:
            bad = ('roundtrip-compat', f"round-tripped value incompatible / member Unpack differs; v={sm.show(model)}")
        if bad:
            res.violation(f'{PROP}/compact/{bad[0]}', f"type {meta['type']}: {bad[1]}", cs)
        nontrivial = sm.type_depth(t) >= 2 and model not in (frozenset(),)
        res.judged(f"P:{meta['type']}:{sm.show(model)}", nontrivial=nontrivial)
        res.count('roundtrips')
        if isinstance(model, frozenset) and not model:
            res.cover('empty-top')
        res.count('judged', 5)
        if nontrivial:
            res.sample({'type': meta['type'], 'value': sm.show(model), 'table': ev['data']}, limit=1)
        return ev['data']
    else:
        bad = None
        if ev['has']:
            res.count('decoded_something')
            try:
                val = sm.from_obs(ev['val'])
            except ValueError:
                res.count('inconclusive')
                return None
            if not sm.conforms(val, t):
                bad = ('decode-nonconforming', f"Unpack({cs['ops'][0]['data']}) -> {sm.render(ev['val'])} does not conform to the typification")
            elif not ev['compatible']:
                bad = ('decode-incompatible', f"Unpack({cs['ops'][0]['data']}) -> {sm.render(ev['val'])}: CheckCompatible false")
            elif not ev['repack_ok']:
                bad = ('decode-no-roundtrip', f"value decoded from {cs['ops'][0]['data']} = {sm.render(ev['val'])} does not survive its own round trip")
        else:
            res.count('decoded_nothing')
        if bad:
            res.violation(f'{PROP}/compact/{bad[0]}', f"type {meta['type']}: {bad[1]}", cs)
        data = cs['ops'][0]['data']
        res.judged(f"U:{meta['type']}:{data}", nontrivial=sm.type_depth(t) >= 2 and bool(data) and any(data))
        res.count('decodes')
        res.cover('origin:' + meta['origin'])
        res.count('judged', 3)
        return None


def mutate_table(rnd, data):
    d = [list(r) for r in data]
    for _ in range(rnd.choice([1, 1, 2, 3])):
        k = rnd.randrange(10)
        if k == 0 and d:
            del d[rnd.randrange(len(d))]
        elif k == 1 and d:
            i = rnd.randrange(len(d))
            d.insert(i, list(d[i]))
        elif k == 2 and len(d) >= 2:
            i, j = rnd.sample(range(len(d)), 2)
            d[i], d[j] = d[j], d[i]
        elif k == 3 and d:
            i = rnd.randrange(len(d))
            d[i] = d[i][:rnd.randint(0, len(d[i]))]
        elif k == 4 and d:
            i = rnd.randrange(len(d))
            d[i] = d[i] + [rnd.choice(SPECIAL) for _ in range(rnd.randint(1, 3))]
        elif k in (5, 6, 7) and d:
            i = rnd.randrange(len(d))
            if d[i]:
                j = rnd.randrange(len(d[i]))
                d[i][j] = rnd.choice(SPECIAL) if k != 7 else d[i][j] + rnd.choice([-1, 1])
        elif k == 8:
            d.append([rnd.choice(SPECIAL) for _ in range(rnd.randint(0, 5))])
        elif k == 9 and d:
            # marker in the first column(s) of every row + a ragged row: the unknown-count path
            col = rnd.randint(0, 2)
            for r in d:
                if len(r) > col and rnd.random() < 0.8:
                    r[col] = UNKNOWN
            i = rnd.randrange(len(d))
            d[i] = d[i][:rnd.randint(0, len(d[i]))]
    return d


def random_table(rnd):
    rows = rnd.randint(0, 5)
    return [[rnd.choice(SPECIAL + [1, 2, 1, 2, 3]) for _ in range(rnd.randint(0, 6))] for _ in range(rows)]


def small_types():
    E = sm.E
    lvl0 = [E]
    lvl1 = [('s', E), ('t', (E, E))]
    lvl2 = [('s', x) for x in lvl1] + [('t', (a, b)) for a in lvl0 + lvl1 for b in lvl0 + lvl1 if (a, b) != (E, E)]
    return lvl0 + lvl1 + lvl2


def gen_pack_cases(desc, env):
    cases = []
    kind, idx = desc['kind'], desc['i']
    if kind == 'systematic':
        rnd = env.rng('sys', idx)
        n = 0
        for t in small_types():
            vals = sm.all_values(t, [1, 2])
            if len(vals) > 3000:
                vals = rnd.sample(vals, 3000) if env.tier == 'quick' else vals[:60000]
            for v in vals:
                if n % NSH == idx:
                    cases.append(pack_case(t, v, sm.enum_spec(v, rnd)))
                n += 1
        if idx == 0:
            # lazy products / power sets of a few hundred elements: packing traverses the value more than once
            E = sm.E
            import itertools
            for a, b in ((17, 17), (20, 15), (18, 18), (23, 23), (16, 16), (3, 100)):
                model = frozenset(itertools.product(range(1, a + 1), range(1, b + 1)))
                spec = {'dec': [{'setv': list(range(1, a + 1))}, {'setv': list(range(1, b + 1))}]}
                cases.append(pack_case(('s', ('t', (E, E))), model, spec))
                cases.append(pack_case(('t', (('s', ('t', (E, E))), E)), (model, 1), {'t': [spec, {'v': 1}]}))
            for k in (8, 9):
                base = list(range(1, k + 1))
                model = frozenset(frozenset(c) for r in range(k + 1) for c in itertools.combinations(base, r))
                cases.append(pack_case(('s', ('s', E)), model, {'bool': {'setv': base}}))
    else:
        rnd = env.rng('rnd', idx)
        count = 250 if env.tier == 'quick' else 6000
        for _ in range(count):
            g = sm.Gen(rnd, base=rnd.choice([(1, 2, 3), (1, 2), (7, 100, 5, 2147483647, -3, 0)]), lazy=rnd.choice([0.0, 0.3, 0.7]),
                       max_set=rnd.choice([2, 3, 4]))
            depth = rnd.choice([2, 3, 3, 4, 4, 5])
            t = g.rand_type(depth, top_set=rnd.random() < 0.6)
            m, s = g.value(t)
            cases.append(pack_case(t, m, s))
            # the same type with sparse content (many empty sets at inner positions)
            g2 = sm.Gen(rnd, base=(1, 2), lazy=0.0, max_set=1)
            m2, s2 = g2.value(t, size_hint=rnd.choice([0, 1, 2])) if t[0] == 's' else g2.value(t)
            cases.append(pack_case(t, m2, s2))
            if rnd.random() < 0.3:
                # a generic typification instantiated in place (SubstituteBase) / overwritten by assignment between two packs
                t0 = rename_leaves(t, rnd, rnd.choice([0.3, 0.6, 1.0]))
                then = []
                cur = t0
                for _ in range(rnd.choice([1, 1, 2])):
                    if rnd.random() < 0.75:
                        by = g.rand_type(rnd.choice([0, 1, 1, 2]))
                        if rnd.random() < 0.3:
                            by = rename_leaves(by, rnd, 0.5)
                        cur = subst_type(cur, 'R1', by)
                        step = {'subst': {'R1': sm.type_spec(by)}}
                    else:
                        cur = rename_leaves(g.rand_type(depth, top_set=rnd.random() < 0.6), rnd, 0.3)
                        step = {'assign': sm.type_spec(cur)}
                    if sm.type_depth(cur) > 7:
                        break
                    mk, sk = g2.value(cur, size_hint=rnd.choice([0, 1, 2])) if cur[0] == 's' else g2.value(cur)
                    then.append((step, cur, mk, sk))
                m0, s0 = g2.value(t0, size_hint=rnd.choice([0, 1, 2])) if t0[0] == 's' else g2.value(t0)
                cases.append(pack_case(t0, m0, s0, then))
    return cases


def shards(tier, seed):
    return [{'kind': 'systematic', 'i': i} for i in range(NSH)] + [{'kind': 'random', 'i': i} for i in range(NSH)]


def run_shard(desc, env):
    res = core.ShardResult()
    rnd = env.rng('mut', desc['kind'], desc['i'])
    packs = gen_pack_cases(desc, env)
    tables = []
    for cs, cr in env.execute(packs, chunk=500):
        data = judge(res, cs, cr)
        if data is not None:
            tables.append((to_t(cs['meta']['t']), data))
    # decode phase
    cases = []
    types = [t for t, _ in tables] or [('s', sm.E)]
    per = 1 if desc['kind'] == 'systematic' else 4
    for t, data in tables:
        if desc['kind'] == 'systematic' and rnd.random() < 0.7:
            continue
        for _ in range(per):
            cases.append(unpack_case(t, mutate_table(rnd, data), 'mutated'))
        other = rnd.choice(types)
        cases.append(unpack_case(other, data, 'other-type'))
        if rnd.random() < 0.3:
            cases.append(unpack_case(t, random_table(rnd), 'random'))
    for cs, cr in env.execute(cases, chunk=500):
        judge(res, cs, cr)
    return res


def replay(cs, env):
    res = core.ShardResult()
    for c, cr in env.execute([cs]):
        judge(res, c, cr)
    return res


RULE = RULE + ' A third of the random packs continue with the SAME Typification object after SubstituteBase / assignment (packing must depend on value and typification only).'
