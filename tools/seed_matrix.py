#!/usr/bin/env python3
"""Runs every kept seeded change (seeded/<id>/patch.diff) against the quick check of its own property (and extra checks
given as 'also' in meta.json) in a scratch worktree of /repo HEAD, records the outcome in seeded/<id>/meta.json
('detected_by', 'last_matrix') and writes seeded/MATRIX.md.  Scratch worktrees are removed after each seed.

usage: tools/seed_matrix.py [seed ids...]      (default: all)
"""
import json
import os
import re
import subprocess
import sys

VERIF = os.path.dirname(os.path.dirname(os.path.abspath(__file__)))
SEEDED = os.path.join(VERIF, 'seeded')


def run(seed):
    d = os.path.join(SEEDED, seed)
    meta = json.load(open(os.path.join(d, 'meta.json')))
    checks = [meta['property']] + [c for c in meta.get('also', []) if c != meta['property']]
    wt = f'/tmp/vsm_{os.getpid()}'
    subprocess.run(['git', '-C', '/repo', 'worktree', 'add', '-f', '--detach', wt, 'HEAD', '-q'], check=True)
    out = {}
    try:
        ok = subprocess.run(['git', '-C', wt, 'apply', '--3way', os.path.join(d, 'patch.diff')], capture_output=True).returncode == 0
        if not ok:
            ok = subprocess.run(['git', '-C', wt, 'apply', os.path.join(d, 'patch.diff')], capture_output=True).returncode == 0
        if not ok:
            return meta, {'error': 'patch does not apply on current HEAD'}
        for c in checks:
            r = subprocess.run([os.path.join(VERIF, 'check'), c], env=dict(os.environ, VERIF_REPO=wt), capture_output=True, text=True, cwd=VERIF)
            keys = sorted(set(re.findall(r'^\s+key=(\S+)', r.stdout, re.M)))
            raw = re.search(r'violations_raw=(\d+)', r.stdout)
            out[c] = {'rc': r.returncode, 'keys': keys[:6], 'violations_raw': int(raw.group(1)) if raw else 0}
    finally:
        subprocess.run(['git', '-C', '/repo', 'worktree', 'remove', '--force', wt])
    return meta, out


def main():
    seeds = sys.argv[1:] or sorted(s for s in os.listdir(SEEDED) if os.path.isdir(os.path.join(SEEDED, s)))
    head = subprocess.run(['git', '-C', '/repo', 'rev-parse', '--short', 'HEAD'], capture_output=True, text=True).stdout.strip()
    for seed in seeds:
        if json.load(open(os.path.join(SEEDED, seed, 'meta.json'))).get('retired'):
            print(seed, 'retired', flush=True)
            continue
        meta, out = run(seed)
        meta['detected_by'] = sorted(c for c, o in out.items() if isinstance(o, dict) and o.get('rc') == 1)
        meta['last_matrix'] = {'repo_head': head, 'tier': 'quick', 'seed': os.environ.get('VERIF_SEED', '1'), 'results': out}
        json.dump(meta, open(os.path.join(SEEDED, seed, 'meta.json'), 'w'), indent=1, ensure_ascii=False)
        print(seed, json.dumps(out, ensure_ascii=False)[:300], flush=True)
    rows = []
    for seed in sorted(s for s in os.listdir(SEEDED) if os.path.isdir(os.path.join(SEEDED, s))):
        m = json.load(open(os.path.join(SEEDED, seed, 'meta.json')))
        if m.get('retired'):
            rows.append(f"| {seed} | {m['property']} | {m.get('needs_to_manifest', '')[:160]} | retired: {m['retired'][:200]} |")
            continue
        res = m.get('last_matrix', {}).get('results', {})
        cells = '; '.join(f"{c}: {'CAUGHT' if o.get('rc') == 1 else ('missed' if o.get('rc') == 0 else 'rc ' + str(o.get('rc')))} ({o.get('violations_raw', 0)} raw; {', '.join(k.split('/', 1)[-1] for k in o.get('keys', [])[:2])})"
                          for c, o in res.items() if isinstance(o, dict) and 'rc' in o) or str(res)
        rows.append(f"| {seed} | {m['property']} | {m.get('needs_to_manifest', '')[:160]} | {cells} |")
    with open(os.path.join(SEEDED, 'MATRIX.md'), 'w') as fh:
        fh.write('# Seeded changes vs. checks (quick tier, VERIF_SEED=1; written by tools/seed_matrix.py)\n\n')
        metas = [json.load(open(os.path.join(SEEDED, x, 'meta.json'))) for x in sorted(os.listdir(SEEDED)) if os.path.isdir(os.path.join(SEEDED, x))]
        live = [m for m in metas if not m.get('retired')]
        own = sum(1 for m in live if m['property'] in m.get('detected_by', []))
        other = sum(1 for m in live if m.get('detected_by') and m['property'] not in m['detected_by'])
        fh.write(f"{len(live)} kept seeds ({len(metas) - len(live)} retired): {own} caught by the check of their own property, {other} only by the check of "
                 f"another property (listed as `also` in meta.json), {len(live) - own - other} not caught.\n\n")
        fh.write('| seed | property | needs to manifest | outcome |\n|---|---|---|---|\n' + '\n'.join(rows) + '\n')


if __name__ == '__main__':
    main()
