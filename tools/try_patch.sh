#!/bin/sh
# usage: tools/try_patch.sh <patch.diff> <Cxx> [more ids...]   -- run checks against /repo HEAD + patch in a scratch worktree
P=$(readlink -f "$1"); shift
WT=/tmp/vwt_$$
git -C /repo worktree add -f --detach $WT HEAD -q || exit 2
if ! git -C $WT apply --3way "$P" 2>/tmp/vwt_apply_$$.log; then
  if ! git -C $WT apply "$P"; then echo "PATCH DOES NOT APPLY"; cat /tmp/vwt_apply_$$.log; git -C /repo worktree remove --force $WT; exit 2; fi
fi
rm -f /tmp/vwt_apply_$$.log
cd /verif
for id in "$@"; do
  VERIF_REPO=$WT ./check $id ${TIER:+--tier $TIER} > /tmp/vwt_out_$$ 2>&1; rc=$?
  echo "== $id rc=$rc"; grep -E "^(VIOLATION|  key=|KNOWN|\[C)" /tmp/vwt_out_$$ | head -${LINES_MAX:-12}
done
rm -f /tmp/vwt_out_$$
git -C /repo worktree remove --force $WT
