// ccdrive: JSON-lines driver executing ops against the real ConceptCore API (see DESIGN.md 2.2)
#pragma once
#include <nlohmann/json.hpp>
#include <string>
#include <string_view>
#include <functional>

namespace drv {
using json = nlohmann::json;
using OpFn = json (*)(const json&);

void Register(const char* name, OpFn fn);

struct Registrar {
  Registrar(const char* name, OpFn fn) { Register(name, fn); }
};

// Byte-exact transport of arbitrary (possibly invalid UTF-8) strings: args carry either "s" (utf-8)
// or "hex" fields; results use Bytes() = {"hex": "..."} when not valid utf-8.
std::string GetBytes(const json& j, const char* key);
json PutBytes(std::string_view bytes);
bool IsValidUtf8(std::string_view s);

#define DRV_OP(ident, name) \
  static drv::json ident(const drv::json& a); \
  static drv::Registrar reg_##ident{name, &ident}; \
  static drv::json ident(const drv::json& a)
}  // namespace drv
