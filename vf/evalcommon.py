"""Shared workload for C01 (evaluation = set-theoretic value) and C02 (type soundness)."""
from . import core
from . import rsgen as rg
from . import rstypes as rt
from . import rstyped as ty
from . import sdmodel as sm

N = rg.N
DOCUMENTED = {0x8A01: 'typedOverflow', 0x8A02: 'booleanLimit', 0x8A03: 'globalMissingValue', 0x8A04: 'iterationsLimit',
              0x8A05: 'invalidDebool', 0x8A06: 'iterateInfinity'}
UNKNOWN_ERROR = 0x8A00

STYLES = [dict(ws=0.0, parens=0.0, short_decl=0.0), dict(ws=0.2, nl=0.1, parens=0.3, short_decl=0.4)]


def parse_type(s):
    """Typification::ToString -> rstypes type"""
    if s == 'LOGIC':
        return rt.LOGIC
    pos = [0]

    def peek():
        return s[pos[0]] if pos[0] < len(s) else ''

    def atom():
        ch = peek()
        if ch == 'ℬ':
            pos[0] += 1
            if peek() == '(':
                pos[0] += 1
                inner = product()
                assert peek() == ')'
                pos[0] += 1
                return ('s', inner)
            return ('s', atom())
        if ch == '(':
            pos[0] += 1
            inner = product()
            assert peek() == ')'
            pos[0] += 1
            return inner
        start = pos[0]
        while pos[0] < len(s) and s[pos[0]] not in '×()':
            pos[0] += 1
        return ('e', s[start:pos[0]])

    def product():
        parts = [atom()]
        while peek() == '×':
            pos[0] += 1
            parts.append(atom())
        return parts[0] if len(parts) == 1 else ('t', tuple(parts))

    t = product()
    assert pos[0] == len(s), s
    return t


def conforms(v, t):
    if t == rt.LOGIC:
        return isinstance(v, bool)
    if isinstance(v, bool):
        return False
    if rt.is_any(t):
        return False     # the element type of the empty set: no value can sit at such a position
    if t[0] == 'e':
        return isinstance(v, int)
    if t[0] == 't':
        return isinstance(v, tuple) and len(v) == len(t[1]) and all(conforms(c, ct) for c, ct in zip(v, t[1]))
    return isinstance(v, frozenset) and all(conforms(c, t[1]) for c in v)


def variants(tree, ref_type, rnd):
    """metamorphic variants that must have the same value: (label, tree, syntax, style)"""
    out = [('math', tree, 'MATH', STYLES[0])]
    if not rg.has_greek(tree):
        out.append(('ascii', tree, 'ASCII', STYLES[rnd.randrange(2)]))
    out.append(('parens', tree, 'MATH', STYLES[1]))
    if ref_type is not None and ref_type != rt.LOGIC and tree[0] not in ('PUNC_DEFINE', 'PUNC_STRUCT', 'NT_FUNC_DEFINITION'):
        out.append(('debool-wrap', N('DEBOOL', None, [N(rnd.choice(['BOOL', 'NT_ENUMERATION']), None, [tree])]), 'MATH', STYLES[0]))
        if ref_type[0] == 's' and tree[0] != 'LIT_EMPTYSET':
            out.append(('declarative-copy', N('NT_DECLARATIVE_EXPR', None, [N('ID_LOCAL', 'q_'), tree, N('EQUAL', None, [N('LIT_INTEGER', 1), N('LIT_INTEGER', 1)])]), 'MATH', STYLES[0]))
            out.append(('imperative-copy', N('NT_IMPERATIVE_EXPR', None, [N('ID_LOCAL', 'q_'), N('ITERATE', None, [N('ID_LOCAL', 'q_'), tree])]), 'MATH', STYLES[0]))
    return out


def sibling_scopes(g, ctx, rnd):
    """two sibling scopes binding the SAME name over domains of different typification (legal, only a warning); the near-miss
    variant puts the body written for the first domain under the second one (must be rejected)"""
    sets = [(n, t) for n, t in ctx.types.items() if n not in ctx.funcs and t != ty.LOGIC and t[0] == 's']
    pairs = [(a, b) for a in sets for b in sets if a[1] != b[1]]
    if not pairs:
        return None
    (g1, t1), (g2, t2) = rnd.choice(pairs)
    name = rnd.choice(g.names_pool)
    bodies = []
    for t in (t1, t2):
        body = None
        for _ in range(6):
            cand = g.logic([(name, t[1])], rnd.choice([1, 2, 2]))
            if cand is not None and ty.TypedGen.mentions(cand, name):
                body = cand
                break
        if body is None:
            return None
        bodies.append(body)
    swapped = rnd.random() < 0.4
    quant = lambda dom, body: N(rnd.choice(['FORALL', 'EXISTS']), None, [N('ID_LOCAL', name), N('ID_GLOBAL', dom), body])
    if rnd.random() < 0.6:
        tree = N(rnd.choice(['AND', 'OR', 'IMPLICATION']), None, [quant(g1, bodies[0]), quant(g2, bodies[0] if swapped else bodies[1])])
    else:
        decl = lambda dom, body: N('CARD', None, [N('NT_DECLARATIVE_EXPR', None, [N('ID_LOCAL', name), N('ID_GLOBAL', dom), body])])
        tree = N(rnd.choice(['EQUAL', 'GREATER']), None, [decl(g1, bodies[0]), decl(g2, bodies[0] if swapped else bodies[1])])
    return tree, ('sibling-swapped-body' if swapped else 'sibling-same-name')


def enum_capture(g, ctx, rnd):
    """enumerated declaration whose DOMAIN binds locals with the same names as the declared variables (legal: the domain is a
    closed scope); the domain is evaluated again for every further variable, inside the scope of the preceding ones"""
    sets = [(n, t) for n, t in ctx.types.items() if n not in ctx.funcs and t != ty.LOGIC and t[0] == 's' and t[1][0] == 'e']
    if not sets:
        return None
    gname, gt = rnd.choice(sets)
    a, v, b = rnd.sample(g.names_pool[:12], 3)
    L = lambda n: N('ID_LOCAL', n)
    G = lambda: N('ID_GLOBAL', gname)
    kind = rnd.choice(['imperative', 'declarative', 'quantified'])
    if kind == 'imperative':
        dom = N('NT_IMPERATIVE_EXPR', None, [L(a), N('ASSIGN', None, [L(v), G()]), N('ITERATE', None, [L(a), L(v)])])
    elif kind == 'declarative':
        dom = N('NT_DECLARATIVE_EXPR', None, [L(a), G(), N('EXISTS', None, [L(v), G(), N('EQUAL', None, [L(v), L(a)])])])
    else:
        dom = N('NT_DECLARATIVE_EXPR', None, [L(v), G(), N('FORALL', None, [L(b), G(), N('OR', None, [N('EQUAL', None, [L(b), L(v)]), N('NOTEQUAL', None, [L(b), L(v)])])])])
    names = [a, v] if rnd.random() < 0.5 else [a, v, b]
    body = N(rnd.choice(['OR', 'AND', 'IMPLICATION']), None, [N(rnd.choice(['EQUAL', 'NOTEQUAL']), None, [L(names[0]), L(names[1])]), N('IN', None, [L(names[-1]), G()])])
    tree = N(rnd.choice(['FORALL', 'EXISTS']), None, [N('NT_ENUM_DECL', None, [L(n) for n in names]), dom, body])
    if rnd.random() < 0.4:
        tree = N('CARD', None, [N('NT_DECLARATIVE_EXPR', None, [L('q_'), G(), tree])])
        tree = N('GREATER', None, [tree, N('LIT_INTEGER', 0)])
    return tree, 'enum-domain-shares-names'


def build_cases(rnd, tier, nctx, per_ctx, big=False, mutants=0.25):
    cases = []
    for _ in range(nctx):
        g = ty.TypedGen(rnd, big=big)
        ctx = g.make_context(empty_bases=0.08)
        ops = [{'op': 'rs.ctx', 'ctx': 'c', 'spec': ctx.spec()}]
        items = []
        ref = ctx.ref()
        for _ in range(per_ctx):
            tree = g.expression(rnd.choice([1, 2, 2, 3, 3, 4]))
            mut = 'none'
            sib = sibling_scopes(g, ctx, rnd) if rnd.random() < 0.1 else (enum_capture(g, ctx, rnd) if rnd.random() < 0.04 else None)
            if sib is not None:
                tree, mut = sib
            elif rnd.random() < mutants:
                tree, mut = ty.mutate(tree, g, rnd)
            if rnd.random() < 0.08 and not rg.is_logic(tree):
                tree = N('PUNC_DEFINE', None, [N('ID_GLOBAL', 'D9'), tree])
            if rg.count_nodes(tree) > 90:
                continue
            res = rt.check_expression(tree, ref)
            rtype = res['type'] if res['status'] == 'ok' else None
            vs = variants(tree, rtype, rnd) if res['status'] == 'ok' else [('math', tree, 'MATH', STYLES[0])]
            for label, vt, syntax, style in vs:
                src = rg.map_locals(vt, (lambda x: x) if syntax == 'MATH' else rg.translit)
                text, _sp = rg.render(src, syntax, rnd, **style)
                ops.append({'op': 'rs.eval', 'ctx': 'c', 'text': text, 'syntax': syntax})
                items.append({'tree': src, 'base': label == 'math', 'variant': label, 'mut': mut, 'text': text, 'syntax': syntax})
        meta_ctx = {'types': ctx.types, 'funcs': ctx.funcs, 'traits': ctx.traits, 'vclass': ctx.vclass, 'bodies': ctx.bodies,
                    'data': {k: (v if isinstance(v, bool) else sm.enum_spec(v)) for k, v in ctx.data.items()}}
        cases.append(core.case(ops, kind='evalctx', ctx=meta_ctx, items=items))
    return cases


def load_ctx(m):
    from .p03 import to_type
    return {'types': {k: to_type(v) for k, v in m['types'].items()},
            'funcs': {k: [(a, to_type(t)) for a, t in v] for k, v in m['funcs'].items()},
            'traits': m['traits'], 'vclass': m['vclass'], 'bodies': m['bodies'],
            'data': {k: (v if isinstance(v, bool) else sm.from_obs(v)) for k, v in m['data'].items()}}


def lib_value(ev):
    """library result -> ('value', v) | ('error', [eids]) """
    if ev.get('has'):
        if 'bool' in ev:
            return ('value', ev['bool'])
        try:
            return ('value', sm.from_obs(ev['val']))
        except ValueError:
            return ('big', None)
    return ('error', [e['eid'] for e in ev['errors'] if e['crit']])


def is_evaluable(tree):
    i = tree[0]
    if i == 'PUNC_DEFINE':
        return len(tree[2]) == 2 and tree[2][0][0] == 'ID_GLOBAL' and tree[2][1][0] != 'NT_FUNC_DEFINITION'
    return i not in ('PUNC_STRUCT', 'NT_FUNC_DEFINITION')


def single_replay_case(cs, op, item):
    return {'ops': [cs['ops'][0], op], 'meta': {'kind': 'evalctx', 'ctx': cs['meta']['ctx'], 'items': [item]}}


def inlining_cases():
    """systematic part: term-function calls by substitution - nested calls, bound variables in arguments and bodies,
    argument/local names colliding with the caller's locals (fixed small context)"""
    import itertools
    g = ty.TypedGen(__import__('random').Random(0))
    c = g.ctx
    X1 = ty.S(ty.E('X1'))
    c.types.update({'X1': X1, 'S1': ty.S(X1), 'D1': X1})
    c.traits['X1'] = 'nominal'
    c.vclass.update({'X1': 'value', 'S1': 'value', 'D1': 'value'})
    c.bases['X1'] = [1, 2, 3]
    c.data.update({'X1': frozenset([1, 2, 3]), 'S1': frozenset([frozenset([1]), frozenset([2, 3])]), 'D1': frozenset([1, 3])})
    defs = {
        'F1': 'F1:==[a∈ℬ(X1)] D{x∈X1 | ∃y∈a (y=x)}',
        'F2': 'F2:==[a∈ℬ(X1)] D{x∈X1 | F1[{x}]⊆a}',
        'F3': 'F3:==[a∈ℬ(R1)] D{x∈a | ∀y∈a (x=y ∨ ¬x=y)}',
        'F4': 'F4:==[x∈ℬ(X1), y∈ℬ(X1)] D{a∈x | a∈y}∪F1[y]',
        'F5': 'F5:==[a∈ℬℬ(X1)] D{x∈X1 | ∃y∈a (x∈F3[y])}',
        'F6': 'F6:==[a∈ℬ(X1)] I{(x,y) | x:∈a; y:∈F1[{x}]∪D1}',
        'P1': 'P1:==[a∈ℬ(X1), b∈X1] ∀x∈a (x=b ∨ b∈F1[{x}])',
    }
    # build abstract trees through the reference structures: parse by hand is not available, so trees are written out
    L = lambda n: N('ID_LOCAL', n)
    G = lambda n: N('ID_GLOBAL', n)
    call = lambda f, *a: N('NT_FUNC_CALL', None, [N('ID_PREDICATE' if f[0] == 'P' else 'ID_FUNCTION', f)] + list(a))
    argd = lambda n, dom: N('NT_ARG_DECL', None, [L(n), dom])
    BX = N('BOOLEAN', None, [G('X1')])
    fdef = lambda name, args, body: N('PUNC_DEFINE', None, [N('ID_PREDICATE' if name[0] == 'P' else 'ID_FUNCTION', name), N('NT_FUNC_DEFINITION', None, [N('NT_ARGUMENTS', None, args), body])])
    trees = {
        'F1': fdef('F1', [argd('a', BX)], N('NT_DECLARATIVE_EXPR', None, [L('x'), G('X1'), N('EXISTS', None, [L('y'), L('a'), N('EQUAL', None, [L('y'), L('x')])])])),
        'F2': fdef('F2', [argd('a', BX)], N('NT_DECLARATIVE_EXPR', None, [L('x'), G('X1'), N('SUBSET_OR_EQ', None, [call('F1', N('NT_ENUMERATION', None, [L('x')])), L('a')])])),
        'F3': fdef('F3', [argd('a', N('BOOLEAN', None, [N('ID_RADICAL', 'R1')]))], N('NT_DECLARATIVE_EXPR', None, [L('x'), L('a'), N('FORALL', None, [L('y'), L('a'), N('OR', None, [N('EQUAL', None, [L('x'), L('y')]), N('NOT', None, [N('EQUAL', None, [L('x'), L('y')])])])])])),
        'F4': fdef('F4', [argd('x', BX), argd('y', N('BOOLEAN', None, [G('X1')]))], N('UNION', None, [N('NT_DECLARATIVE_EXPR', None, [L('a'), L('x'), N('IN', None, [L('a'), L('y')])]), call('F1', L('y'))])),
        'F5': fdef('F5', [argd('a', N('BOOLEAN', None, [N('BOOLEAN', None, [G('X1')])]))], N('NT_DECLARATIVE_EXPR', None, [L('x'), G('X1'), N('EXISTS', None, [L('y'), L('a'), N('IN', None, [L('x'), call('F3', L('y'))])])])),
        'F6': fdef('F6', [argd('a', BX)], N('NT_IMPERATIVE_EXPR', None, [N('NT_TUPLE', None, [L('x'), L('y')]), N('ITERATE', None, [L('x'), L('a')]), N('ITERATE', None, [L('y'), N('UNION', None, [call('F1', N('NT_ENUMERATION', None, [L('x')])), G('D1')])])])),
        'P1': fdef('P1', [argd('a', BX), argd('b', G('X1'))], N('FORALL', None, [L('x'), L('a'), N('OR', None, [N('EQUAL', None, [L('x'), L('b')]), N('IN', None, [L('b'), call('F1', N('NT_ENUMERATION', None, [L('x')]))])])])),
    }
    for name in ['F1', 'F2', 'F3', 'F4', 'F5', 'F6', 'P1']:
        res = rt.check_expression(trees[name], c.ref())
        assert res['status'] == 'ok', (name, res)
        c.types[name] = res['type']
        c.funcs[name] = res['args']
        c.vclass[name] = 'value'
        c.bodies[name] = trees[name]
        c.texts[name] = rg.render(trees[name], 'MATH')[0]
    sets = [G('X1'), G('D1')]
    unary = ['F1', 'F2', 'F3']
    exprs = []
    for s0 in sets:
        for f in unary:
            exprs.append(call(f, s0))
            for h in unary:
                exprs.append(call(f, call(h, s0)))
                exprs.append(N('INTERSECTION', None, [call(f, s0), call(f, call(h, s0))]))
                exprs.append(N('INTERSECTION', None, [call(f, call(h, s0)), call(f, s0)]))
        exprs.append(call('F4', s0, call('F1', s0)))
        exprs.append(call('F4', call('F2', s0), s0))
        exprs.append(call('F6', s0))
        exprs.append(call('F6', call('F2', s0)))
        exprs.append(call('F5', G('S1')))
        exprs.append(call('F5', N('NT_ENUMERATION', None, [s0, call('F1', s0)])))
        # caller locals colliding with function locals / argument names
        for v in ('x', 'y', 'a'):
            exprs.append(N('NT_DECLARATIVE_EXPR', None, [L(v), G('X1'), N('SUBSET_OR_EQ', None, [call('F1', N('NT_ENUMERATION', None, [L(v)])), s0])]))
            exprs.append(N('NT_DECLARATIVE_EXPR', None, [L(v), G('X1'), N('IN', None, [L(v), call('F2', N('UNION', None, [N('NT_ENUMERATION', None, [L(v)]), s0]))])]))
            exprs.append(N('FORALL', None, [L(v), G('X1'), call('P1', N('NT_ENUMERATION', None, [L(v)]), L(v))]))
            exprs.append(N('EXISTS', None, [L(v), G('S1'), N('EQUAL', None, [call('F3', L(v)), call('F1', L(v))])]))
            exprs.append(N('NT_IMPERATIVE_EXPR', None, [call('F1', N('NT_ENUMERATION', None, [L(v)])), N('ITERATE', None, [L(v), call('F2', s0)])]))
    ref = c.ref()
    cases = []
    ops = [{'op': 'rs.ctx', 'ctx': 'c', 'spec': c.spec()}]
    items = []
    for e in exprs:
        res = rt.check_expression(e, ref)
        if res['status'] != 'ok':
            continue
        for label, vt, syntax, style in variants(e, res['type'], __import__('random').Random(1))[:3]:
            src = rg.map_locals(vt, lambda x: x)
            text, _sp = rg.render(src, syntax, None, **STYLES[0])
            ops.append({'op': 'rs.eval', 'ctx': 'c', 'text': text, 'syntax': syntax})
            items.append({'tree': src, 'base': label == 'math', 'variant': label, 'mut': 'inlining', 'text': text, 'syntax': syntax})
    meta_ctx = {'types': c.types, 'funcs': c.funcs, 'traits': c.traits, 'vclass': c.vclass, 'bodies': c.bodies,
                'data': {k: (v if isinstance(v, bool) else sm.enum_spec(v)) for k, v in c.data.items()}}
    # one case per 12 expressions (a death loses at most one small case)
    out = []
    for k in range(0, len(items), 12):
        out.append(core.case([ops[0]] + ops[1 + k:1 + k + 12], kind='evalctx', ctx=meta_ctx, items=items[k:k + 12]))
    return out


def lazy_sharing_cases():
    """systematic part: ONE lazily represented set (power set / product with more than 100 elements) reached through one
    variable and traversed again while an outer traversal of the same object is in progress (builder, quantifier,
    imperative iteration, recursion step); the nested traversals never short-circuit"""
    L = lambda n: N('ID_LOCAL', n)
    G = lambda n: N('ID_GLOBAL', n)
    out = []
    for nbase, lazy, inner in ((7, lambda: N('BOOLEAN', None, [G('X1')]), 'set'), (11, lambda: N('DECART', None, [G('X1'), G('X1')]), 'pair')):
        g = ty.TypedGen(__import__('random').Random(0))
        c = g.ctx
        X1 = ty.S(ty.E('X1'))
        c.types.update({'X1': X1})
        c.traits['X1'] = 'nominal'
        c.vclass.update({'X1': 'value'})
        c.bases['X1'] = list(range(1, nbase + 1))
        c.data.update({'X1': frozenset(range(1, nbase + 1))})
        if inner == 'set':
            pred = lambda a, b: N('SUBSET_OR_EQ', None, [N('INTERSECTION', None, [L(a), L(b)]), L(b)])          # always true
            pred2 = lambda a, b: N('OR', None, [N('NOT', None, [N('EQUAL', None, [L(a), L(b)])]), N('SUBSET_OR_EQ', None, [L(a), L(b)])])
        else:
            pred = lambda a, b: N('OR', None, [N('EQUAL', None, [N('SMALLPR', [1], [L(a)]), N('SMALLPR', [1], [L(b)])]),
                                               N('NOT', None, [N('EQUAL', None, [L(a), L(b)])])])                # always true
            pred2 = lambda a, b: N('IN', None, [N('NT_TUPLE', None, [N('SMALLPR', [2], [L(a)]), N('SMALLPR', [1], [L(b)])]), L('s')])
        bodies = {
            'declarative': lambda p: N('NT_DECLARATIVE_EXPR', None, [L('a'), L('s'), N('FORALL', None, [L('b'), L('s'), p('a', 'b')])]),
            'declarative-exists': lambda p: N('NT_DECLARATIVE_EXPR', None, [L('a'), L('s'), N('NOT', None, [N('EXISTS', None, [L('b'), L('s'), N('NOT', None, [p('a', 'b')])])])]),
            'imperative': lambda p: N('NT_IMPERATIVE_EXPR', None, [L('a'), N('ITERATE', None, [L('a'), L('s')]), N('FORALL', None, [L('b'), L('s'), p('a', 'b')])]),
            'quantifier': lambda p: N('FORALL', None, [L('a'), L('s'), N('FORALL', None, [L('b'), L('s'), p('a', 'b')])]),
            'card-of-builder': lambda p: N('CARD', None, [N('NT_DECLARATIVE_EXPR', None, [L('a'), L('s'), N('EQUAL', None, [
                N('CARD', None, [N('NT_DECLARATIVE_EXPR', None, [L('b'), L('s'), p('a', 'b')])]), N('CARD', None, [L('s')])])])]),
        }
        binders = {
            'assign': lambda body: N('NT_IMPERATIVE_EXPR', None, [body, N('ASSIGN', None, [L('s'), lazy()])]),
            'iterate-singleton': lambda body: N('NT_IMPERATIVE_EXPR', None, [body, N('ITERATE', None, [L('s'), N('NT_ENUMERATION', None, [lazy()])])]),
            'quantified': lambda body: N('FORALL', None, [L('s'), N('NT_ENUMERATION', None, [lazy()]),
                                                           body if rg.is_logic(body) else N('EQUAL', None, [body, body])]),
            'builder-over-singleton': lambda body: N('NT_DECLARATIVE_EXPR', None, [L('s'), N('NT_ENUMERATION', None, [lazy()]),
                                                                                  body if rg.is_logic(body) else N('EQUAL', None, [body, L('s')])]),
        }
        ref = c.ref()
        ops = [{'op': 'rs.ctx', 'ctx': 'c', 'spec': c.spec()}]
        items = []
        for bn, bind in binders.items():
            for dn, body in bodies.items():
                for pn, p in (('p1', pred), ('p2', pred2)):
                    tree = bind(body(p))
                    if bn in ('assign', 'iterate-singleton') and rg.is_logic(body(p)):
                        tree = N('NT_DECLARATIVE_EXPR', None, [L('s'), N('NT_ENUMERATION', None, [lazy()]), body(p)])
                    res = rt.check_expression(tree, ref)
                    if res['status'] != 'ok':
                        continue
                    text, _sp = rg.render(tree, 'MATH', None, **STYLES[0])
                    ops.append({'op': 'rs.eval', 'ctx': 'c', 'text': text, 'syntax': 'MATH'})
                    items.append({'tree': tree, 'base': True, 'variant': 'math', 'mut': f'lazy-sharing:{bn}:{dn}:{pn}', 'text': text, 'syntax': 'MATH'})
        meta_ctx = {'types': c.types, 'funcs': c.funcs, 'traits': c.traits, 'vclass': c.vclass, 'bodies': c.bodies,
                    'data': {k: (v if isinstance(v, bool) else sm.enum_spec(v)) for k, v in c.data.items()}}
        for k in range(0, len(items), 4):
            out.append(core.case([ops[0]] + ops[1 + k:1 + k + 4], kind='evalctx', ctx=meta_ctx, items=items[k:k + 4]))
    return out
