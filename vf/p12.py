"""C12 — synthesis, merge and equation yield a consistent schema and exact translations."""
from . import core
from . import formgen as fg
from . import refmodel as rm
from . import rslex
from . import p08
from . import p09

PROP = 'C12'
RULE = ('pairs of schemas grown from a common shape plus private additions (overlapping aliases and uids, shared / disjoint '
        'base sets, incorrect members, text references, conventions) are handed to the real BinarySynthes with random equation '
        'tables (like-with-like by shape position, unlike kinds, chains, duplicates, non-existing ids, keepHier / keepDel / '
        'createNew), and single schemas to MergeWith, Equate, IsEquatable and DeleteDuplicates. Monitors: result invariants '
        '(unique well-formed aliases, views agree - the C09 monitor); translations total over each operand and onto existing '
        'result constituents; equated pairs share one image; every result constituent carries the definition / convention of '
        'one of its pre-images under the alias map induced by the translations (reference lexical model, simultaneous whole-'
        'token substitution), raw texts by the reference translation; fully correct operands + like-with-like table => fully '
        'correct result and typifications preserved up to the map; verdict == result presence; operands unchanged, a refused '
        'in-place Equate leaves the schema unchanged. Distinct = hash of the script; non-trivial = accepted non-empty table '
        'or a merge/dedup that renamed or removed something.')
ASSUMPTIONS = ['which tables must be ACCEPTED is not specified by the property beyond the empty table; acceptance is taken from the code and its consequences are checked',
               'constituents that mention an unresolved name are not judged on definition equality (the name may be captured by an intermediate alias; capture is excluded by C08)']
MIN_JUDGED = {'quick': 3000, 'thorough': 60000}
NSH = 32

SHAPE_DEFS = {
    'structure': ['ℬ($[%d]×$[%d])', 'ℬ($[%d])', 'ℬℬ($[%d])', 'ℬ($[%d]×ℬ($[%d]))'],
    'term': ['$[%d]∪$[%d]', '$[%d]\\$[%d]', 'ℬ($[%d])', '$[%d]×$[%d]', 'Pr1($[%d])', 'D{ξ∈$[%d] | ξ∈$[%d]}', 'red($[%d])', '{$[%d]}', 'bool($[%d])', 'card($[%d])', '$[%d]'],
    'axiom': ['$[%d]=$[%d]', '∀ξ∈$[%d] ξ∈$[%d]', '$[%d]≠∅', '1=1'],
    'function': ['[α∈ℬ($[%d])] α∪$[%d]', '[α∈ℬ(R1)] α∪α', '[α∈$[%d], β∈ℬ($[%d])] {α}∪β'],
    'predicate': ['[α∈ℬ($[%d])] α⊆$[%d]', '[α∈$[%d], β∈ℬ($[%d])] α∈β'],
}
TERMS = ['', '', 'термин', 'множество @{$[%d]|plur,gent}', '@{$[%d]|nomn,sing} над @{$[%d]|datv}', 'человек', 'пара @{$[%d]|nomn, sing}']


def shards(tier, seed):
    return [{'kind': 'synth', 'i': i} for i in range(NSH)] + [{'kind': 'inplace', 'i': i} for i in range(NSH // 2)]


def make_shape(rnd):
    """common part: list of (type, def template filled with positions, term, text)"""
    nb = rnd.choice([1, 2, 2, 3])
    nc = rnd.choice([0, 0, 1])
    ns = rnd.choice([0, 1, 1, 2])
    shape = [('basic', '') for _ in range(nb)] + [('constant', '') for _ in range(nc)]
    for _ in range(ns):
        shape.append(('structure', fg.fill(rnd, rnd.choice(SHAPE_DEFS['structure']), nb + nc, dangling=0)))
    for _ in range(rnd.choice([1, 3, 5])):
        ctype = rnd.choice(['term', 'term', 'term', 'axiom', 'function', 'predicate'])
        shape.append((ctype, fg.fill(rnd, rnd.choice(SHAPE_DEFS[ctype]), len(shape), dangling=0)))
    return shape


def emit(rnd, f, shape, extras, bad):
    ops = [{'op': 'form.op', 'f': f, 'k': 'new'}]
    for ctype, d in shape:
        ops.append({'op': 'form.op', 'f': f, 'k': 'emplace', 'type': ctype, 'def': d})
    n = len(shape)
    for _ in range(extras):
        ctype = rnd.choice(['term', 'term', 'axiom', 'function', 'predicate', 'theorem'])
        tmpl = rnd.choice(SHAPE_DEFS['axiom' if ctype == 'theorem' else ctype])
        d = fg.fill(rnd, tmpl, n, dangling=bad)
        if rnd.random() < bad:
            d = fg.fill(rnd, rnd.choice(fg.BAD_DEFS), n)
        ops.append({'op': 'form.op', 'f': f, 'k': 'emplace', 'type': ctype, 'def': d})
        n += 1
    for _ in range(rnd.randint(0, 4)):
        kk = rnd.choice(['setterm', 'setterm', 'setdef', 'setconv'])
        target = rnd.randrange(n)
        # term texts refer only to constituents BEFORE their own: a term that (directly or through a cycle) contains two references
        # to itself doubles its resolved text with every refresh, which is outside this property and only stalls the workload
        span_t = target if kk == 'setterm' else n
        tmpl = rnd.choice(TERMS + ['uses $[%d]']) if span_t > 0 else rnd.choice(['термин', 'человек', ''])
        ops.append({'op': 'form.op', 'f': f, 'k': kk, 'uid': {'idx': target}, 'text': fg.fill(rnd, tmpl, span_t, dangling=0)})
    if rnd.random() < 0.3:
        ops.append({'op': 'form.op', 'f': f, 'k': 'setalias', 'uid': {'idx': rnd.randrange(n)}, 'alias': rnd.choice(['X7', 'D7', 'X11', 'D11', 'S7', 'F7']), 'subst': True})
    if rnd.random() < 0.2:
        ops.append({'op': 'form.op', 'f': f, 'k': 'move', 'uid': {'idx': rnd.randrange(n)}, 'before': {'idx': rnd.randrange(n)}})
    return ops, n


def odd_aliases(rnd):
    """legal aliases that the name generator itself never produces (leading zeros, indices beyond 32 bits), often the same
    one in both operands"""
    if rnd.random() > 0.2:
        return []
    pool = ['X01', 'X4294967296', 'X007', 'X0', 'X18446744073709551616', 'X00']
    a = rnd.choice(pool)
    b = a if rnd.random() < 0.7 else rnd.choice(pool)
    return [{'op': 'form.op', 'f': 'a', 'k': 'setalias', 'uid': {'idx': 0}, 'alias': a, 'subst': True},
            {'op': 'form.op', 'f': 'b', 'k': 'setalias', 'uid': {'idx': 0}, 'alias': b, 'subst': True}]


def random_pairs(rnd, shape_len, na, nb, like):
    pairs = []
    used_a, used_b = set(), set()
    for i in range(shape_len):
        if rnd.random() < like:
            pairs.append([{'idx': i}, {'idx': i}])
            used_a.add(i)
            used_b.add(i)
    # unlike kinds / crossing pairs (base with structure, constant with term ...): chains and cycles through typifications
    for _ in range(rnd.choice([0, 0, 0, 1, 2, 3, 5])):
        pairs.append([fg.uid_arg(rnd, na, gone=0, foreign=0.03), fg.uid_arg(rnd, nb, gone=0, foreign=0.03)])
    for p in pairs:
        r = rnd.random()
        if r < 0.15:
            p.append('keepDel')
        elif r < 0.3:
            p.extend(['createNew', rnd.choice(['новый термин', '', 'новый @{X1|nomn,sing}'])])
    return pairs


def synth_case(rnd, hist_id):
    ops = [{'op': 'env.processor', 'mode': 'tagging'}, {'op': 'form.seed', 'seed': hist_id}]
    shape = make_shape(rnd)
    bad = rnd.choice([0, 0, 0, 0.15])
    oa, na = emit(rnd, 'a', shape, rnd.choice([0, 1, 3]), bad)
    if rnd.random() < 0.5:
        ops.append({'op': 'form.seed', 'seed': hist_id})     # same identifiers in both operands
    ob, nb = emit(rnd, 'b', shape if rnd.random() < 0.85 else make_shape(rnd), rnd.choice([0, 1, 3]), bad)
    ops += oa + ob + odd_aliases(rnd)
    ops.append({'op': 'form.snap', 'f': 'a'})
    ops.append({'op': 'form.snap', 'f': 'b'})
    like = rnd.choice([0, 0.3, 0.6, 1.0])
    ops.append({'op': 'form.synth', 'a': 'a', 'b': 'b', 'pairs': random_pairs(rnd, len(shape), na, nb, like), 'to': 'r'})
    return core.case(ops, kind='synth')


def inplace_case(rnd, hist_id):
    ops = [{'op': 'env.processor', 'mode': 'tagging'}, {'op': 'form.seed', 'seed': hist_id}]
    shape = make_shape(rnd)
    bad = rnd.choice([0, 0, 0.15])
    oa, na = emit(rnd, 'a', shape, rnd.choice([1, 3, 5]), bad)
    ob, nb = emit(rnd, 'b', shape, rnd.choice([0, 2]), bad)
    ops += oa + ob + odd_aliases(rnd)
    ops.append({'op': 'form.op', 'f': 'a', 'k': 'updatestate', 'snap': True})
    ops.append({'op': 'form.snap', 'f': 'b'})
    n = na
    for _ in range(rnd.randint(1, 5)):
        r = rnd.random()
        if r < 0.35:
            ops.append({'op': 'form.op', 'f': 'a', 'k': 'merge', 'src': 'b', 'snap': True})
            n += nb
        elif r < 0.55:
            ops.append({'op': 'form.op', 'f': 'a', 'k': 'dedup', 'snap': True})
        else:
            pairs = []
            for _ in range(rnd.choice([1, 1, 2, 3])):
                i = rnd.randrange(n)
                j = (i + na) % max(n, 1) if (n > na and rnd.random() < 0.6) else rnd.randrange(n)
                pairs.append([{'idx': i}, {'idx': j}] + rnd.choice([[], [], ['keepDel'], ['createNew', 'имя']]))
            r2 = rnd.random()
            if r2 < 0.25:
                # an equation that is (most likely) refused - unlike kinds / typifications, possibly after an acceptable first pair -
                # immediately followed by a direct Equate of the real pairs (no IsEquatable in between)
                refused = [[{'idx': rnd.randrange(n)}, {'idx': rnd.randrange(n)}]] if rnd.random() < 0.5 else []
                refused.append([{'idx': 0}, {'idx': rnd.randrange(max(1, n - 1)) + (1 if n > 1 else 0)}])
                refused.append([{'idx': rnd.randrange(n)}, {'idx': rnd.randrange(n)}])
                ops.append({'op': 'form.op', 'f': 'a', 'k': rnd.choice(['isequatable', 'equate']), 'pairs': refused, 'snap': True})
            elif r2 < 0.8:
                ops.append({'op': 'form.op', 'f': 'a', 'k': 'isequatable', 'pairs': pairs, 'snap': True})
            ops.append({'op': 'form.op', 'f': 'a', 'k': 'equate', 'pairs': pairs, 'snap': True})
    return core.case(ops, kind='inplace')


def alias_map(operand, tr, result):
    """operand alias -> alias of its image in the result"""
    return {it['alias']: result['items'][str(tr[int(u)])]['alias'] for u, it in operand['items'].items() if int(u) in tr and str(tr[int(u)]) in result['items']}


def unresolved(snap):
    aliases = {it['alias'] for it in snap['items'].values()}
    return {u: {m for m in rslex.mentioned(it['def']) if m not in aliases} for u, it in snap['items'].items()}


def check_images(res, what, operands, result, cs):
    """operands: [(name, snapshot, translation dict)]. Returns first problem or None"""
    ritems = result['items']
    pre = {}
    for name, snap, tr in operands:
        for u in snap['items']:
            if int(u) not in tr:
                return ('translation-not-total', f"{name}: constituent {snap['items'][u]['alias']} ({u}) has no image; translation {tr}")
            if str(tr[int(u)]) not in ritems:
                return ('translation-dangling', f"{name}: {snap['items'][u]['alias']} ({u}) is mapped to {tr[int(u)]} which is not in the result {sorted(ritems)}")
            pre.setdefault(str(tr[int(u)]), []).append((name, snap, u))
        extra = [k for k in tr if str(k) not in snap['items']]
        if extra:
            return ('translation-foreign-keys', f'{name}: translation has keys {extra} that are not constituents of the operand')
    new_names = {it['alias'] for it in ritems.values()}
    amaps = {name: alias_map(snap, tr, result) for name, snap, tr in operands}
    dangling = {name: unresolved(snap) for name, snap, tr in operands}
    for r, sources in pre.items():
        rit = ritems[r]
        candidates = []
        skip = False
        for name, snap, u in sources:
            it = snap['items'][u]
            if dangling[name][u]:
                # an unresolved name may be captured by an intermediate alias during merge + renumbering (excluded by C08)
                skip = True
            want_def, _ = rslex.translate(it['def'], amaps[name])
            want_conv, _ = rslex.translate(it['conv'], amaps[name])
            candidates.append((it['type'], want_def, want_conv, name, it))
        if skip:
            res.count('unspecified')
            continue
        res.count('judged', 3)
        if not any(c[0] == rit['type'] and c[1] == rit['def'] for c in candidates):
            exp = [(c[3], c[4]['alias'], c[4]['def'], '->', c[1]) for c in candidates]
            return ('mention-rewrite', f"result {rit['alias']} := {rit['def']!r} ({rit['type']}) is not the image of any of its pre-images {exp}")
        if len(candidates) == 1:
            c = candidates[0]
            if c[2] != rit['conv']:
                return ('convention-rewrite', f"result {rit['alias']}: convention {rit['conv']!r}, expected {c[2]!r} from {c[4]['conv']!r}")
            for f in ('term_raw', 'text_raw'):
                # references may be rewritten more than once on the way (image, then renumbering): compared in canonical spelling
                want, spec = rm.translate_raw(c[4][f], amaps[c[3]])
                if spec and want != rit[f] and rm.canonical(want) != rm.canonical(rit[f]):
                    return (f'{f}-rewrite', f"result {rit['alias']}: {f} {rit[f]!r}, expected {want!r} from {c[4][f]!r} under {amaps[c[3]]}")
    orphan = [ritems[r]['alias'] for r in ritems if r not in pre]
    if orphan:
        return ('result-without-preimage', f'result constituents {orphan} are the image of no operand constituent')
    return None


def judge_synth(res, cs, cr):
    ev = cr.events[-1]
    op = cs['ops'][-1]
    a0, b0 = cr.events[-3]['snap'], cr.events[-2]['snap']
    strip = lambda s: {k: v for k, v in s.items() if k not in ('corehash', 'fullhash')}
    if strip(ev['a_after']) != strip(a0) or strip(ev['b_after']) != strip(b0):
        res.violation(f'{PROP}/synth/operand-modified', 'an operand schema changed during synthesis', cs)
        return
    res.count('judged', 2)
    pairs = ev['args']
    res.cover('table:' + ('empty' if not pairs else 'nonempty'))
    if ev['correct'] != ev['has']:
        res.violation(f'{PROP}/synth/verdict-vs-result', f"IsCorrectlyDefined={ev['correct']} but Execute returned {'a schema' if ev['has'] else 'nothing'}", cs)
        return
    if not ev['has']:
        if not pairs:
            res.violation(f'{PROP}/synth/empty-table-refused', 'synthesis with an empty table refused', cs)
        res.count('refused')
        res.judged(repr(cs['ops']), nontrivial=False)
        return
    result = ev['result']
    t0 = {k: v for k, v in ev['translations'][0]}
    t1 = {k: v for k, v in ev['translations'][1]}
    bad = None
    inv = p09.invariants(result)
    if inv:
        bad = ('result-' + inv[0][0], inv[0][1])
    for k, v in pairs:
        if str(k) in a0['items'] and str(v) in b0['items'] and k in t0 and v in t1 and t0[k] != t1[v]:
            bad = bad or ('pair-not-identified', f"equated {a0['items'][str(k)]['alias']} and {b0['items'][str(v)]['alias']} map to different constituents {t0[k]} / {t1[v]}")
    bad = bad or check_images(res, 'synth', [('operand1', a0, t0), ('operand2', b0, t1)], result, cs)
    if not bad:
        all_ok = all(it['status'] == 'verified' for s in (a0, b0) for it in s['items'].values())
        am_a, am_b = alias_map(a0, t0, result), alias_map(b0, t1, result)
        like = True
        for k, v in pairs:
            ka, vb = a0['items'][str(k)], b0['items'][str(v)]
            if ka['type'] != vb['type'] or p08.sub_ident(ka['typ'], am_a) != p08.sub_ident(vb['typ'], am_b) or repr(ka['args']) != repr(vb['args']) and \
                    p08.sub_ident(repr(ka['args']), am_a) != p08.sub_ident(repr(vb['args']), am_b):
                like = False
        if all_ok and like:
            res.cover('correct-operands-like-with-like')
            wrong = [(it['alias'], it['def']) for it in result['items'].values() if it['status'] != 'verified']
            if wrong:
                bad = ('result-not-correct', f'operands fully correct, table like-with-like, but result has incorrect {wrong}')
            else:
                for name, snap, tr, am in (('operand1', a0, t0, am_a), ('operand2', b0, t1, am_b)):
                    for u, it in snap['items'].items():
                        rit = result['items'][str(tr[int(u)])]
                        res.count('judged')
                        if p08.sub_ident(it['typ'], am) != rit['typ'] or p08.sub_ident(repr(it['args']), am) != repr(rit['args']):
                            bad = bad or ('typification', f"{name} {it['alias']} typed {it['typ']} {it['args']} has image {rit['alias']} typed {rit['typ']} {rit['args']} (map {am})")
    if bad:
        ctx = f"operand1 {[(i['alias'], i['def']) for i in a0['items'].values()]}; operand2 {[(i['alias'], i['def']) for i in b0['items'].values()]}; table {pairs} {[p[2:] for p in op['pairs']]}; " \
              f"result {[(i['alias'], i['def']) for i in result['items'].values()]}; translations {ev['translations']}"
        res.violation(f'{PROP}/synth/{bad[0]}', f'{bad[1]}; {ctx}', cs)
        return
    res.judged(repr(cs['ops']), nontrivial=bool(pairs))
    res.counters['judged'] -= 1
    if pairs:
        res.cover('accepted-nonempty-table')
        res.sample({'operand1': [(i['alias'], i['def']) for i in a0['items'].values()][:8], 'operand2': [(i['alias'], i['def']) for i in b0['items'].values()][:8], 'pairs': pairs,
                    'result': [(i['alias'], i['def']) for i in result['items'].values()][:12]}, limit=1)


def judge_inplace(res, cs, cr):
    prev = None
    bsnap = None
    nontrivial = False
    strip = lambda s: {k: v for k, v in s.items() if k not in ('corehash', 'fullhash')}
    verdict = None
    for idx, (op, ev) in enumerate(zip(cs['ops'], cr.events)):
        if op['op'] == 'form.snap' and op['f'] == 'b':
            bsnap = ev['snap']
            continue
        if op['op'] != 'form.op' or op['f'] != 'a' or 'snap' not in ev:
            continue
        k = op['k']
        snap = ev['snap']
        before = prev
        prev = snap
        if before is None:
            continue
        res.cover('op:' + k)
        if k not in ('isequatable', 'equate'):
            verdict = None
        bad = None
        inv = p09.invariants(snap)
        if inv:
            bad = (f'{k}-' + inv[0][0], inv[0][1])
        ident = {int(u): int(u) for u in before['items']}
        if k == 'isequatable':
            if strip(snap) != strip(before):
                bad = bad or ('isequatable-modified', 'IsEquatable changed the schema')
            verdict = (ev['args'], ev['ret'])
        elif k == 'merge':
            tr = {a: b for a, b in ev['ret']}
            if any(str(v) in before['items'] for v in tr.values()):
                bad = bad or ('merge-image-collides', f'MergeWith maps onto a constituent that existed before: {tr}')
            both = dict(ident)
            bad = bad or check_images(res, 'merge', [('target', before, ident), ('source', bsnap, tr)], snap, cs)
            if not bad and len(set(tr.values())) != len(tr):
                bad = ('merge-not-injective', f'MergeWith translation {tr}')
            nontrivial = True
        elif k == 'dedup':
            tr = {a: b for a, b in ev['ret']}
            full = dict(ident)
            for a, b in tr.items():
                full[a] = b
            # removed constituents may chain: follow to the survivor for the alias map, but the returned map must hit existing ones
            for a, b in tr.items():
                if str(b) not in snap['items']:
                    bad = bad or ('dedup-translation-dangling', f'DeleteDuplicates maps {a} to {b} which is not in the schema afterwards; translation {tr}')
            if not bad:
                bad = check_images(res, 'dedup', [('schema', before, full)], snap, cs)
            if tr:
                nontrivial = True
        elif k == 'equate':
            pairs = ev['args']
            # the verdict of an IsEquatable call counts only for the Equate of the same table right after it
            verdict = verdict[1] if (verdict is not None and verdict[0] == pairs) else None
            if ev['ret'] is None:
                res.count('refused')
                if strip(snap) != strip(before):
                    bad = bad or ('refused-equate-modified', f'Equate{pairs} was refused but the schema changed')
                if verdict is True:
                    bad = bad or ('isequatable-vs-equate', f'IsEquatable{pairs} = true but Equate refused')
            else:
                if verdict is False:
                    bad = bad or ('isequatable-vs-equate', f'IsEquatable{pairs} = false but Equate succeeded')
                tr = {a: b for a, b in ev['ret']}
                full = dict(ident)
                full.update(tr)
                for a, b in pairs:
                    if full.get(a) != full.get(b):
                        bad = bad or ('pair-not-identified', f'equated {a} and {b} map to {full.get(a)} / {full.get(b)}')
                for a, b in tr.items():
                    if str(b) not in snap['items']:
                        bad = bad or ('equate-translation-dangling', f'Equate maps {a} to {b} which is not in the schema afterwards; translation {tr}')
                if not bad:
                    bad = check_images(res, 'equate', [('schema', before, full)], snap, cs)
                nontrivial = True
                res.cover('accepted-nonempty-table')
            verdict = None
        if bad:
            ctx = f"before {[(i['alias'], i['def']) for i in before['items'].values()]}; after {[(i['alias'], i['def']) for i in snap['items'].values()]}; op {k} args {ev.get('args')} ret {ev.get('ret')}"
            res.violation(f'{PROP}/inplace/{bad[0]}', f'{bad[1]}; {ctx}', {'ops': cs['ops'][:idx + 1], 'meta': {'kind': 'inplace'}})
            return
        res.count('judged', 2)
    res.judged(repr(cs['ops']), nontrivial=nontrivial)
    res.counters['judged'] -= 1


def judge(res, cs, cr):
    if not core.std_death_checks(res, PROP, cs, cr):
        return
    {'synth': judge_synth, 'inplace': judge_inplace}[cs['meta']['kind']](res, cs, cr)


def run_shard(desc, env):
    res = core.ShardResult()
    rnd = env.rng('c12', desc['kind'], desc['i'])
    big = env.tier != 'quick'
    make = synth_case if desc['kind'] == 'synth' else inplace_case
    cases = [make(rnd, desc['i'] * 100000 + k) for k in range(1500 if big else 100)]
    for cs, cr in env.execute(cases, chunk=20):
        judge(res, cs, cr)
    return res


def replay(cs, env):
    res = core.ShardResult()
    for c, cr in env.execute([cs]):
        judge(res, c, cr)
    return res


RULE = RULE + ' Legal aliases the generator never produces (leading zeros, indices >= 2^32) shared by both operands; refused equation tables directly followed by an Equate of another table; term texts refer only to earlier constituents (self-referential terms are outside the property).'
