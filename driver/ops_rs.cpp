// rslang parse-level ops: rs.parse, rs.roundtrip, rs.convert (C04, C05, C06, C18)
#include "drv_rs.h"

#include "ccl/rslang/Parser.h"
#include "ccl/rslang/RSGenerator.h"
#include "ccl/rslang/RSExpr.h"

#include <map>
#include <memory>

using drv::json;
using namespace ccl::rslang;  // NOLINT

namespace drv {

const char* TokenName(TokenID id) {
  switch (id) {
  case TokenID::ID_LOCAL: return "ID_LOCAL";
  case TokenID::ID_GLOBAL: return "ID_GLOBAL";
  case TokenID::ID_FUNCTION: return "ID_FUNCTION";
  case TokenID::ID_PREDICATE: return "ID_PREDICATE";
  case TokenID::ID_RADICAL: return "ID_RADICAL";
  case TokenID::LIT_INTEGER: return "LIT_INTEGER";
  case TokenID::LIT_INTSET: return "LIT_INTSET";
  case TokenID::LIT_EMPTYSET: return "LIT_EMPTYSET";
  case TokenID::PLUS: return "PLUS";
  case TokenID::MINUS: return "MINUS";
  case TokenID::MULTIPLY: return "MULTIPLY";
  case TokenID::GREATER: return "GREATER";
  case TokenID::LESSER: return "LESSER";
  case TokenID::GREATER_OR_EQ: return "GREATER_OR_EQ";
  case TokenID::LESSER_OR_EQ: return "LESSER_OR_EQ";
  case TokenID::EQUAL: return "EQUAL";
  case TokenID::NOTEQUAL: return "NOTEQUAL";
  case TokenID::FORALL: return "FORALL";
  case TokenID::EXISTS: return "EXISTS";
  case TokenID::NOT: return "NOT";
  case TokenID::EQUIVALENT: return "EQUIVALENT";
  case TokenID::IMPLICATION: return "IMPLICATION";
  case TokenID::OR: return "OR";
  case TokenID::AND: return "AND";
  case TokenID::IN: return "IN";
  case TokenID::NOTIN: return "NOTIN";
  case TokenID::SUBSET: return "SUBSET";
  case TokenID::SUBSET_OR_EQ: return "SUBSET_OR_EQ";
  case TokenID::NOTSUBSET: return "NOTSUBSET";
  case TokenID::DECART: return "DECART";
  case TokenID::UNION: return "UNION";
  case TokenID::INTERSECTION: return "INTERSECTION";
  case TokenID::SET_MINUS: return "SET_MINUS";
  case TokenID::SYMMINUS: return "SYMMINUS";
  case TokenID::BOOLEAN: return "BOOLEAN";
  case TokenID::BIGPR: return "BIGPR";
  case TokenID::SMALLPR: return "SMALLPR";
  case TokenID::FILTER: return "FILTER";
  case TokenID::CARD: return "CARD";
  case TokenID::BOOL: return "BOOL";
  case TokenID::DEBOOL: return "DEBOOL";
  case TokenID::REDUCE: return "REDUCE";
  case TokenID::DECLARATIVE: return "DECLARATIVE";
  case TokenID::RECURSIVE: return "RECURSIVE";
  case TokenID::IMPERATIVE: return "IMPERATIVE";
  case TokenID::ITERATE: return "ITERATE";
  case TokenID::ASSIGN: return "ASSIGN";
  case TokenID::PUNC_DEFINE: return "PUNC_DEFINE";
  case TokenID::PUNC_STRUCT: return "PUNC_STRUCT";
  case TokenID::PUNC_PL: return "PUNC_PL";
  case TokenID::PUNC_PR: return "PUNC_PR";
  case TokenID::PUNC_CL: return "PUNC_CL";
  case TokenID::PUNC_CR: return "PUNC_CR";
  case TokenID::PUNC_SL: return "PUNC_SL";
  case TokenID::PUNC_SR: return "PUNC_SR";
  case TokenID::PUNC_BAR: return "PUNC_BAR";
  case TokenID::PUNC_COMMA: return "PUNC_COMMA";
  case TokenID::PUNC_SEMICOLON: return "PUNC_SEMICOLON";
  case TokenID::NT_ENUM_DECL: return "NT_ENUM_DECL";
  case TokenID::NT_TUPLE: return "NT_TUPLE";
  case TokenID::NT_ENUMERATION: return "NT_ENUMERATION";
  case TokenID::NT_TUPLE_DECL: return "NT_TUPLE_DECL";
  case TokenID::NT_ARG_DECL: return "NT_ARG_DECL";
  case TokenID::NT_FUNC_DEFINITION: return "NT_FUNC_DEFINITION";
  case TokenID::NT_ARGUMENTS: return "NT_ARGUMENTS";
  case TokenID::NT_FUNC_CALL: return "NT_FUNC_CALL";
  case TokenID::NT_DECLARATIVE_EXPR: return "NT_DECLARATIVE_EXPR";
  case TokenID::NT_IMPERATIVE_EXPR: return "NT_IMPERATIVE_EXPR";
  case TokenID::NT_RECURSIVE_FULL: return "NT_RECURSIVE_FULL";
  case TokenID::NT_RECURSIVE_SHORT: return "NT_RECURSIVE_SHORT";
  case TokenID::INTERRUPT: return "INTERRUPT";
  case TokenID::END: return "END";
  }
  return "UNKNOWN";
}

json TreeJ(SyntaxTree::Cursor cur, long& budget) {
  json out = json::object();
  out["id"] = TokenName(cur->id);
  out["p"] = json::array({ cur->pos.start, cur->pos.finish });
  if (cur->data.HasValue()) {
    if (cur->data.IsInt()) {
      out["d"] = cur->data.ToInt();
    } else if (cur->data.IsText()) {
      out["d"] = drv::PutBytes(cur->data.ToText());
    } else if (cur->data.IsTuple()) {
      out["d"] = cur->data.ToTuple();
    }
  }
  if (cur.ChildrenCount() > 0) {
    json children = json::array();
    for (Index i = 0; i < cur.ChildrenCount(); ++i) {
      if (--budget < 0) {
        children.push_back("BUDGET");
        break;
      }
      children.push_back(TreeJ(cur.Child(i), budget));
    }
    out["c"] = std::move(children);
  }
  return out;
}

json TreeJ(const SyntaxTree& tree) {
  long budget = 200000;
  return TreeJ(tree.Root(), budget);
}

json ErrorsJ(const ErrorLogger& log) {
  json out = json::array();
  for (const auto& e : log.All()) {
    json params = json::array();
    for (const auto& p : e.params) {
      params.push_back(drv::PutBytes(p));
    }
    out.push_back(json{ {"eid", e.eid}, {"pos", e.position}, {"crit", e.IsCritical()}, {"params", params} });
  }
  return out;
}

Syntax SyntaxOf(const json& a, const char* key) {
  const auto s = a.value(key, std::string{ "UNDEF" });
  if (s == "MATH") return Syntax::MATH;
  if (s == "ASCII") return Syntax::ASCII;
  return Syntax::UNDEF;
}

const char* SyntaxName(Syntax s) {
  switch (s) {
  case Syntax::MATH: return "MATH";
  case Syntax::ASCII: return "ASCII";
  default: return "UNDEF";
  }
}

json TypeJ(const ExpressionType& type) {
  if (std::holds_alternative<LogicT>(type)) {
    return "LOGIC";
  }
  return std::get<Typification>(type).ToString();
}

}  // namespace drv

namespace {

std::map<std::string, std::unique_ptr<Parser>>& Parsers() {
  static std::map<std::string, std::unique_ptr<Parser>> parsers;
  return parsers;
}

Parser& ParserFor(const json& a, std::unique_ptr<Parser>& fresh) {
  if (a.contains("obj")) {
    auto& slot = Parsers()[a["obj"].get<std::string>()];
    if (slot == nullptr) {
      slot = std::make_unique<Parser>();
    }
    return *slot;
  }
  fresh = std::make_unique<Parser>();
  return *fresh;
}

}  // namespace

DRV_OP(OpRsParse, "rs.parse") {
  std::unique_ptr<Parser> fresh;
  auto& parser = ParserFor(a, fresh);
  const auto text = drv::GetBytes(a, "text");
  json out = json::object();
  const bool ok = parser.Parse(text, drv::SyntaxOf(a));
  out["ok"] = ok;
  out["syn"] = drv::SyntaxName(parser.syntax);
  out["errors"] = drv::ErrorsJ(parser.Errors());
  if (ok) {
    out["tree"] = drv::TreeJ(parser.AST());
    out["ast"] = drv::PutBytes(AST2String::Apply(parser.AST()));
    if (a.contains("ranges")) {
      json found = json::array();
      for (const auto& r : a["ranges"]) {
        const ccl::StrRange range{ r.at(0).get<int32_t>(), r.at(1).get<int32_t>() };
        const auto node = FindMinimalNode(parser.AST().Root(), range);
        if (!node.has_value()) {
          found.push_back(nullptr);
        } else {
          found.push_back(json{ {"id", drv::TokenName((*node)->id)}, {"p", json::array({ (*node)->pos.start, (*node)->pos.finish })} });
        }
      }
      out["found"] = found;
    }
    if (a.value("gen", false)) {
      // print in both syntaxes, re-parse in the same syntax, compare (library == and dumps)
      const bool asciiFirst = a.value("gen_first", std::string{ "MATH" }) == "ASCII";
      for (const auto target : { asciiFirst ? Syntax::ASCII : Syntax::MATH, asciiFirst ? Syntax::MATH : Syntax::ASCII }) {
        json one = json::object();
        const auto gen = Generator::FromTree(parser.AST(), target);
        one["text"] = drv::PutBytes(gen);
        Parser second{};
        const bool ok2 = second.Parse(gen, target);
        one["ok"] = ok2;
        one["errors"] = drv::ErrorsJ(second.Errors());
        if (ok2) {
          one["tree"] = drv::TreeJ(second.AST());
          one["eq"] = second.AST() == parser.AST();
          one["regen"] = drv::PutBytes(Generator::FromTree(second.AST(), target));
        }
        out[target == Syntax::MATH ? "genMATH" : "genASCII"] = one;
      }
    }
  }
  return out;
}

DRV_OP(OpRsConvert, "rs.convert") {
  const auto text = drv::GetBytes(a, "text");
  const auto from = drv::SyntaxOf(a, "from");
  const auto other = from == Syntax::MATH ? Syntax::ASCII : Syntax::MATH;
  json out = json::object();
  const auto there = ConvertTo(text, other);
  const auto back = ConvertTo(there, from);
  const auto thereAgain = ConvertTo(back, other);
  out["there"] = drv::PutBytes(there);
  out["back"] = drv::PutBytes(back);
  out["there_again"] = drv::PutBytes(thereAgain);
  Parser first{};
  Parser second{};
  Parser third{};
  const bool ok1 = first.Parse(text, from);
  const bool ok2 = second.Parse(back, from);
  const bool ok3 = third.Parse(there, other);
  out["ok_in"] = ok1;
  out["ok_back"] = ok2;
  out["ok_there"] = ok3;
  if (ok1) out["tree_in"] = drv::TreeJ(first.AST());
  if (ok2) out["tree_back"] = drv::TreeJ(second.AST());
  if (ok3) out["tree_there"] = drv::TreeJ(third.AST());
  return out;
}

DRV_OP(OpRsExtract, "rs.names") {
  const auto text = drv::GetBytes(a, "text");
  json out = json::object();
  std::vector<std::string> g;
  for (const auto& n : ExtractUGlobals(text)) g.push_back(n);
  std::sort(g.begin(), g.end());
  std::vector<std::string> l;
  for (const auto& n : ExtractULocals(text)) l.push_back(n);
  std::sort(l.begin(), l.end());
  json gj = json::array();
  for (const auto& n : g) gj.push_back(drv::PutBytes(n));
  json lj = json::array();
  for (const auto& n : l) lj.push_back(drv::PutBytes(n));
  out["globals"] = gj;
  out["locals"] = lj;
  return out;
}

DRV_OP(OpRsTranslate, "rs.translate") {
  auto text = drv::GetBytes(a, "text");
  ccl::StrSubstitutes subst;
  for (const auto& [k, v] : a.at("map").items()) {
    subst[k] = v.get<std::string>();
  }
  json out = json::object();
  if (a.value("idents", false)) {
    out["count"] = TranslateRS(text, TFFactory::FilterIdentifiers(), ccl::CreateTranslator(subst));
  } else {
    out["count"] = SubstituteGlobals(text, subst);
  }
  out["text"] = drv::PutBytes(text);
  return out;
}
