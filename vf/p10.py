"""C10 — saving and loading a schema or model through JSON is lossless and stable."""
import json

from . import core
from . import formgen as fg
from . import p11

PROP = 'C10'
RULE = ('objects reached by seeded editing histories (RSForm: incorrect definitions, unused names, non-ASCII text, manual '
        'word forms, tracking flags, renamed/erased/re-inserted constituents; RSModel: base interpretations with non-'
        'contiguous keys, structure data, nested-empty values, calculated and never-calculated constituents) are saved with '
        'the real to_json, loaded with from_json and saved again: doc1 == doc2 as JSON values (incl. the embedded parse '
        'blocks) and snapshot(object) == snapshot(loaded object) on identifiers, aliases, kinds, order, formal definitions, '
        'conventions, raw terms, manual forms, raw text definitions, tracking flags, interpretation data and calculated '
        'flags; pyconcept CheckSchema(doc1) must return the same items. Distinct = hash of the script; non-trivial = object '
        'has >= 4 constituents and >= 1 incorrect or text-bearing one.')
ASSUMPTIONS = ['JSON documents are compared as parsed values (key order and whitespace ignored)',
               'resolved text fields are compared as saved; the tagging text processor of other checks is not installed here']
MIN_JUDGED = {'quick': 2000, 'thorough': 40000}
NSH = 32
CONTENT = ['alias', 'type', 'def', 'conv', 'term_raw', 'forms', 'text_raw', 'status', 'typ', 'args', 'vclass', 'ast']


def shards(tier, seed):
    return [{'kind': 'form', 'i': i} for i in range(NSH)] + [{'kind': 'model', 'i': i} for i in range(NSH // 2)]


def form_case(rnd, hist_id):
    ops = [{'op': 'env.processor', 'mode': 'default'}, {'op': 'form.seed', 'seed': hist_id}]
    ops += fg.seed_ops(rnd, 'b', n_base=2, n_derived=3)
    ops += fg.seed_ops(rnd, 'a', n_base=rnd.choice([0, 1, 2, 3]), n_derived=rnd.choice([0, 3, 6]))
    for _ in range(rnd.randint(0, 30)):
        ops.append(fg.edit_op(rnd, 'a', span=rnd.choice([6, 12]), other='b', weights={'settermform': 8, 'setterm': 10, 'setdef': 8, 'setconv': 6, 'track': 6}))
    ops.append({'op': 'form.snap', 'f': 'a', 'json': True})
    return core.case(ops, kind='form')


def model_case(rnd, hist_id):
    cs = p11.history(rnd, hist_id, rnd.randint(5, 40))
    ops = []
    added = {}
    for o in cs['ops']:
        if o['op'] == 'model.snap':
            continue
        if o.get('k') == 'addelem':
            # at most three elements per base set: the document round trip of ℬℬ(X) over four elements (65536 nested sets) takes
            # longer than the per-operation budget under the sanitizers and says nothing new about the format
            key = json.dumps(o.get('uid'), sort_keys=True)
            added[key] = added.get(key, 0) + 1
            if added[key] > 3:
                continue
        if o.get('k') == 'settext' and len(o.get('texts', {})) > 3:
            o = dict(o, texts=dict(list(o['texts'].items())[:3]))
        ops.append(o)
    ops.append({'op': 'model.snap', 'm': 'm', 'json': True})
    return core.case(ops, kind='model')


def rand_type(rnd, depth):
    """random structure typification over X1, X2 (positions 0, 1) and Z"""
    r = rnd.random()
    if depth <= 0 or r < 0.25:
        return ('e', rnd.choice(['$[0]', '$[1]', '$[0]', 'Z']))
    if r < 0.6:
        return ('s', rand_type(rnd, depth - 1))
    return ('t', tuple(rand_type(rnd, depth - 1) for _ in range(rnd.choice([2, 2, 3]))))


def type_text(t, top=True):
    if t[0] == 'e':
        return t[1]
    if t[0] == 's':
        return 'ℬ(' + type_text(t[1]) + ')'
    inner = '×'.join(type_text(c, False) for c in t[1])
    return inner if top else '(' + inner + ')'


def rand_value(rnd, t, nelem):
    if t[0] == 'e':
        return {'v': rnd.randint(1, max(nelem, 1)) if t[1] != 'Z' else rnd.choice([0, 1, 7, 100000])}
    if t[0] == 't':
        return {'t': [rand_value(rnd, c, nelem) for c in t[1]]}
    n = rnd.choice([0, 0, 1, 2, 3])
    return {'s': [rand_value(rnd, t[1], nelem) for _ in range(n)]}


def rich_model_case(rnd, hist_id):
    """structures of random nested typification holding random data (many empty components), terms over them"""
    m = 'm'
    ops = [{'op': 'env.processor', 'mode': 'default'}, {'op': 'form.seed', 'seed': hist_id}, {'op': 'model.op', 'm': m, 'k': 'new'}]
    ops.append({'op': 'model.op', 'm': m, 'k': 'emplace', 'type': 'basic'})
    ops.append({'op': 'model.op', 'm': m, 'k': 'emplace', 'type': 'basic'})
    nelem = rnd.randint(1, 4)
    for b in (0, 1):
        for k in range(nelem):
            ops.append({'op': 'model.op', 'm': m, 'k': 'addelem', 'uid': {'idx': b}, 'name': f'e{b}{k}'})
    nstruct = rnd.randint(1, 4)
    types = []
    for _ in range(nstruct):
        t = ('s', rand_type(rnd, 3))
        types.append(t)
        ops.append({'op': 'model.op', 'm': m, 'k': 'emplace', 'type': 'structure', 'def': type_text(t)})
    for i, t in enumerate(types):
        if rnd.random() < 0.85:
            ops.append({'op': 'model.op', 'm': m, 'k': 'setstruct', 'uid': {'idx': 2 + i}, 'value': rand_value(rnd, t, nelem)})
    for i in range(rnd.randint(0, 4)):
        j = 2 + rnd.randrange(nstruct)
        ops.append({'op': 'model.op', 'm': m, 'k': 'emplace', 'type': 'term', 'def': rnd.choice(['$[%d]', 'ℬ($[%d])', '{$[%d]}', '$[%d]×$[%d]', 'red({$[%d]})', '$[%d]\\$[%d]', 'D{x∈$[%d] | x=x}']).replace('%d', str(j))})
    if rnd.random() < 0.8:
        ops.append({'op': 'model.op', 'm': m, 'k': 'recalcall'})
    ops.append({'op': 'model.snap', 'm': m, 'json': True})
    return core.case(ops, kind='model', rich=True)


def strip(doc):
    return doc


def judge(res, cs, cr):
    if not core.std_death_checks(res, PROP, cs, cr):
        return
    ev = cr.events[-1]
    kind = cs['meta']['kind']
    bad = None
    if ev.get('json_skipped'):
        res.count('unspecified')      # the model holds a value beyond the workload bound of the round-trip probe (driver/ops_form.cpp)
        res.count('oversized_models_skipped')
        return
    doc1, doc2 = ev['doc1'], ev['doc2']
    from .p07 import acyclic
    if not acyclic(ev['snap']['items'], 'term_inputs'):
        # resolved texts of terms on a reference cycle are not defined (they grow with every resolution): not compared
        res.count('unspecified')

        def drop_resolved(o):
            if isinstance(o, dict):
                return {k: drop_resolved(v) for k, v in o.items() if k != 'resolved'}
            if isinstance(o, list):
                return [drop_resolved(x) for x in o]
            return o
        doc1, doc2 = drop_resolved(doc1), drop_resolved(doc2)
        strip_docs = drop_resolved
    else:
        strip_docs = lambda o: o
    if doc1 != doc2:
        where = 'top-level'
        for k in doc1:
            if doc1.get(k) != doc2.get(k):
                where = k
                if isinstance(doc1[k], list) and isinstance(doc2.get(k), list):
                    for a, b in zip(doc1[k], doc2[k]):
                        if a != b:
                            diff = [f for f in set(a) | set(b) if a.get(f) != b.get(f)] if isinstance(a, dict) and isinstance(b, dict) else ['item']
                            where = f"{k}/{a.get('alias', a.get('entityUID')) if isinstance(a, dict) else ''}/{diff[0]}: {str(a.get(diff[0]) if isinstance(a, dict) else a)[:200]} -> {str(b.get(diff[0]) if isinstance(b, dict) else b)[:200]}"
                            break
                    else:
                        where = f'{k}: lengths {len(doc1[k])} vs {len(doc2[k])}'
                break
        bad = ('document-not-stable', f'saving the loaded object gives a different document at {where}')
    live, loaded = ev['snap'], ev['loaded']
    if live['list'] != loaded['list']:
        bad = bad or ('order-or-identifiers', f"list {live['list']} became {loaded['list']}")
    for uid, it in live['items'].items():
        lo = loaded['items'].get(uid)
        if lo is None:
            bad = bad or ('constituent-lost', f"{it['alias']} ({uid}) missing after load")
            continue
        for f in CONTENT + (['track'] if kind == 'form' else []):
            if it.get(f) != lo.get(f):
                bad = bad or (f'content-{f}', f"{it['alias']} ({uid}): {f} {it.get(f)!r} became {lo.get(f)!r}")
        res.count('judged', len(CONTENT))
    tainted = False
    if kind == 'model':
        # a base interpretation whose element keys are not 1..n cannot be represented by the document format
        for uid, val in live['values'].items():
            if live['items'][uid]['type'] in ('basic', 'constant') and val.get('texts') is not None:
                keys = sorted(int(k) for k in val['texts'])
                if keys != list(range(1, len(keys) + 1)):
                    tainted = True
                    lv = loaded['values'].get(uid, {})
                    if lv.get('texts') != val.get('texts'):
                        res.violation(f'{PROP}/json/model-base-keys-renumbered',
                                      f"base set {live['items'][uid]['alias']} has element keys {keys}; after save+load they are {sorted(int(k) for k in (lv.get('texts') or {}))} "
                                      f"(structure data and calculated values still refer to the old keys)", cs)
    if kind == 'model' and not tainted:
        # a structure that was reset while incorrectly defined and became correct through another edit holds NO data;
        # loading initialises every correctly defined structure with the empty set (recorded finding, judged separately)
        normalised = False
        for uid, val in live['values'].items():
            lv = loaded['values'].get(uid)
            if lv is not None and live['items'][uid]['type'] == 'structure' and val.get('sdata') is None and p11.canon(lv.get('sdata')) == frozenset():
                normalised = True
                res.violation(f'{PROP}/json/model-structure-without-data-becomes-empty',
                              f"structure {live['items'][uid]['alias']} holds no data in the live model but the empty set after save+load", cs)
                val['sdata'] = lv['sdata']
        if normalised:
            by_uid = {str(x['entityUID']): x for x in ev['doc2'].get('data', [])}
            for x in ev['doc1'].get('data', []):
                y = by_uid.get(str(x['entityUID']))
                if y is not None and 'value' not in x and 'value' in y and live['items'].get(str(x['entityUID']), {}).get('type') == 'structure':
                    x['value'] = y['value']
            if bad and bad[0] == 'document-not-stable' and strip_docs(ev['doc1']) == strip_docs(ev['doc2']):
                bad = None
        for uid, val in live['values'].items():
            lv = loaded['values'].get(uid)
            if lv is None:
                continue
            for f in ('wascalc', 'sdata', 'statement', 'texts'):
                a, b = val.get(f), lv.get(f)
                if f == 'sdata':
                    a, b = p11.canon(a), p11.canon(b)
                if a != b:
                    bad = bad or (f'model-{f}', f"{live['items'][uid]['alias']} ({live['items'][uid]['type']}): {f} {val.get(f)!r} became {lv.get(f)!r}")
            res.count('judged', 4)
    if tainted:
        res.count('unspecified')
        bad = None if bad and bad[0] == 'document-not-stable' else bad
    if bad:
        res.violation(f'{PROP}/json/{bad[0]}', f"{kind}: {bad[1]}", cs)
    items = live['items']
    nontrivial = len(items) >= 4 and any(it['status'] == 'incorrect' or it['term_raw'] or it['text_raw'] for it in items.values())
    res.judged(repr(cs['ops']), nontrivial=nontrivial)
    res.counters['judged'] -= 1
    res.count('objects')
    res.cover('kind:' + kind + ('-rich' if cs['meta'].get('rich') else ''))
    if nontrivial:
        res.sample({'kind': kind, 'constituents': {it['alias']: it['def'] for it in list(items.values())[:6]}, 'document_items': len(doc1.get('items', []))}, limit=1)


def witness_cases():
    """the two recorded findings (known_findings.json), reproduced from their witnesses in every run: they are reported as
    KNOWN-FINDING whatever the random part of the workload happens to reach"""
    m = 'm'
    head = [{'op': 'env.processor', 'mode': 'default'}, {'op': 'form.seed', 'seed': 1}, {'op': 'model.op', 'm': m, 'k': 'new'}]
    snap = {'op': 'model.snap', 'm': m, 'json': True}
    keys = head + [{'op': 'model.op', 'm': m, 'k': 'emplace', 'type': 'basic'},
                   {'op': 'model.op', 'm': m, 'k': 'settext', 'uid': {'idx': 0}, 'texts': {'5': 'n5'}}, snap]
    nodata = head + [{'op': 'model.op', 'm': m, 'k': 'emplace', 'type': 'basic'},
                     {'op': 'model.op', 'm': m, 'k': 'emplace', 'type': 'structure', 'def': 'ℬ(X2×ℬ(X1))'},
                     {'op': 'model.op', 'm': m, 'k': 'resetdata', 'uid': {'made': -1}},
                     {'op': 'model.op', 'm': m, 'k': 'emplace', 'type': 'basic'}, snap]
    return [core.case(keys, kind='model'), core.case(nodata, kind='model')]


def run_shard(desc, env):
    res = core.ShardResult()
    rnd = env.rng('c10', desc['kind'], desc['i'])
    n = 40 if env.tier == 'quick' else 900
    if desc['kind'] == 'form':
        cases = [form_case(rnd, desc['i'] * 100000 + k) for k in range(n)]
    else:
        cases = [(rich_model_case if k % 3 == 2 else model_case)(rnd, desc['i'] * 100000 + k) for k in range(n)]
        if desc['i'] == 0:
            cases = witness_cases() + cases
    for cs, cr in env.execute(cases, chunk=20):
        judge(res, cs, cr)
    return res


def replay(cs, env):
    res = core.ShardResult()
    for c, cr in env.execute([cs]):
        judge(res, c, cr)
    return res
