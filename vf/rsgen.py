"""RSLang abstract syntax: random/systematic tree generation and rendering to MATH / ASCII text with spans.

A node is a list [id, data, children]; ids are the library's TokenID names.  The renderer is the "grammar
specification" half of the C05/C06 oracles: it encodes the documented precedence / associativity / bracket rules of
RSParserImpl.y and records for every node the span of its rendering (code points for MATH, bytes for ASCII).
"""
import random

MATH = {
    'PLUS': '+', 'MINUS': '-', 'MULTIPLY': '*', 'GREATER': '>', 'LESSER': '<', 'GREATER_OR_EQ': '≥', 'LESSER_OR_EQ': '≤',
    'EQUAL': '=', 'NOTEQUAL': '≠', 'FORALL': '∀', 'EXISTS': '∃', 'NOT': '¬', 'AND': '&', 'OR': '∨', 'IMPLICATION': '⇒',
    'EQUIVALENT': '⇔', 'ITERATE': ':∈', 'ASSIGN': ':=', 'IN': '∈', 'NOTIN': '∉', 'SUBSET': '⊂', 'SUBSET_OR_EQ': '⊆',
    'NOTSUBSET': '⊄', 'UNION': '∪', 'INTERSECTION': '∩', 'SET_MINUS': '\\', 'SYMMINUS': '∆', 'DECART': '×',
    'BOOLEAN': 'ℬ', 'PUNC_DEFINE': ':==', 'PUNC_STRUCT': '::=', 'LIT_EMPTYSET': '∅', 'LIT_INTSET': 'Z',
    'CARD': 'card', 'BOOL': 'bool', 'DEBOOL': 'debool', 'REDUCE': 'red', 'BIGPR': 'Pr', 'SMALLPR': 'pr', 'FILTER': 'Fi',
    'DECLARATIVE': 'D', 'RECURSIVE': 'R', 'IMPERATIVE': 'I',
}
# spellings accepted by the ASCII *lexer* (AsciiLexerImpl.l)
ASCII = dict(MATH)
ASCII.update({
    'PLUS': '\\plus', 'MINUS': '\\minus', 'MULTIPLY': '\\multiply', 'GREATER': '\\gr', 'LESSER': '\\ls',
    'GREATER_OR_EQ': '\\ge', 'LESSER_OR_EQ': '\\le', 'EQUAL': '\\eq', 'NOTEQUAL': '\\noteq', 'FORALL': '\\A',
    'EXISTS': '\\E', 'NOT': '\\neg', 'AND': '\\and', 'OR': '\\or', 'IMPLICATION': '\\impl', 'EQUIVALENT': '\\equiv',
    'ITERATE': '\\from', 'ASSIGN': '\\assign', 'IN': '\\in', 'NOTIN': '\\notin', 'SUBSET': '\\subset',
    'SUBSET_OR_EQ': '\\subseteq', 'NOTSUBSET': '\\notsubset', 'UNION': '\\union', 'INTERSECTION': '\\intersect',
    'SET_MINUS': '\\setminus', 'SYMMINUS': '\\symmdiff', 'DECART': '*', 'BOOLEAN': 'B', 'PUNC_DEFINE': '\\defexpr',
    'PUNC_STRUCT': '\\deftype', 'LIT_EMPTYSET': '{}',
})

ARITH = ['PLUS', 'MINUS', 'MULTIPLY']
SETOPS = ['UNION', 'INTERSECTION', 'SET_MINUS', 'SYMMINUS']
SET_BINARY = ARITH + SETOPS + ['DECART']
PREDICATES = ['IN', 'NOTIN', 'SUBSET', 'SUBSET_OR_EQ', 'NOTSUBSET', 'NOTEQUAL', 'EQUAL', 'GREATER', 'LESSER',
              'GREATER_OR_EQ', 'LESSER_OR_EQ']
LOGIC_BINARY = ['EQUIVALENT', 'IMPLICATION', 'OR', 'AND']
TEXT_FUNCS = ['CARD', 'BOOL', 'DEBOOL', 'REDUCE', 'BIGPR', 'SMALLPR']
SET_LEVEL = {'PLUS': 1, 'MINUS': 1, 'MULTIPLY': 2, 'UNION': 3, 'INTERSECTION': 3, 'SET_MINUS': 3, 'SYMMINUS': 3, 'DECART': 3}
LOGIC_LEVEL = {'EQUIVALENT': 1, 'IMPLICATION': 2, 'OR': 3, 'AND': 4}
LEAVES = ['ID_LOCAL', 'ID_GLOBAL', 'ID_FUNCTION', 'ID_PREDICATE', 'ID_RADICAL', 'LIT_INTEGER', 'LIT_INTSET', 'LIT_EMPTYSET']

GREEK = 'αβγδεζηθικλμνξοπρςστυφχψω'
GREEK_ASCII = 'abgdezhviklmnxoprsstqfcjw'


def translit(name):
    return ''.join(GREEK_ASCII[GREEK.index(ch)] if ch in GREEK else ch for ch in name)


def N(id_, data=None, children=None):
    return [id_, data, children or []]


def is_logic(node):
    i = node[0]
    if i in PREDICATES or i in LOGIC_BINARY or i in ('NOT', 'FORALL', 'EXISTS', 'ITERATE', 'ASSIGN'):
        return True
    if i == 'NT_FUNC_CALL':
        return node[2][0][0] == 'ID_PREDICATE'
    return False


def canon(node):
    """hashable canonical form (id, data, children) - positions ignored"""
    d = node[1]
    if isinstance(d, list):
        d = tuple(d)
    return (node[0], d, tuple(canon(c) for c in node[2]))


def from_dump(j):
    """library tree dump (driver JSON) -> node"""
    d = j.get('d')
    if isinstance(d, dict) and 'hex' in d:
        d = bytes.fromhex(d['hex']).decode('utf-8', 'replace')
    return [j['id'], d, [from_dump(c) for c in j.get('c', []) if not isinstance(c, str)]]


def show(node):
    d = node[1]
    s = node[0] if d is None else f'{node[0]}:{d}'
    if node[2]:
        return s + '(' + ', '.join(show(c) for c in node[2]) + ')'
    return s


def count_nodes(node):
    return 1 + sum(count_nodes(c) for c in node[2])


def ops_in(node, acc=None):
    acc = acc if acc is not None else set()
    acc.add(node[0])
    for c in node[2]:
        ops_in(c, acc)
    return acc


def map_locals(node, fn):
    d = fn(node[1]) if node[0] == 'ID_LOCAL' else node[1]
    return [node[0], d, [map_locals(c, fn) for c in node[2]]]


# ---------------------------------------------------------------------------------------------------
# rendering
# ---------------------------------------------------------------------------------------------------

class Renderer:
    """style: dict(ws=probability of optional whitespace, nl=probability that whitespace is a newline,
    parens=probability of an admissible redundant parenthesis, short_decl=use {x∈S|P} where possible)"""

    def __init__(self, syntax, rnd=None, ws=0.0, nl=0.0, parens=0.0, short_decl=0.0, generator_style=False):
        self.syntax = syntax
        self.tok = MATH if syntax == 'MATH' else ASCII
        self.rnd = rnd or random.Random(0)
        self.ws = ws
        self.nl = nl
        self.parens = parens
        self.short_decl = short_decl
        self.buf = []
        self.pos = 0
        self.spans = {}       # id(node) -> dict(start, end, inner=(s,e) or None, wraps=k)
        self.last_alnum = False

    # -- low level
    def _emit_raw(self, s):
        self.buf.append(s)
        self.pos += len(s) if self.syntax == 'MATH' else len(s.encode('utf-8'))

    def space(self, force=False):
        if force or self.rnd.random() < self.ws:
            if self.rnd.random() < self.nl:
                self._emit_raw('\n')
            else:
                self._emit_raw(' ' * self.rnd.choice([1, 1, 1, 2]))
            self.last_alnum = False
            return True
        return False

    def emit(self, s):
        """emit one token; inserts a separator when two word-like tokens would otherwise fuse"""
        first = s[0]
        wordish_start = first.isalnum() or first == '_' or first in GREEK
        if self.last_alnum and wordish_start:
            if not self.space():
                self._emit_raw(' ')
        else:
            self.space()
        start = self.pos
        self._emit_raw(s)
        last = s[-1]
        self.last_alnum = last.isalnum() or last == '_' or last in GREEK
        if self.syntax == 'ASCII' and s.startswith('\\'):
            self.last_alnum = True       # '\in' followed by 'x' must not fuse into another keyword
        return start

    def text(self):
        return ''.join(self.buf)

    # -- helpers
    def name(self, node):
        if node[0] == 'ID_LOCAL' and self.syntax == 'ASCII':
            return translit(node[1])
        return node[1]

    def record(self, node, start, end):
        self.spans[id(node)] = {'start': start, 'end': end, 'wraps': 0, 'inner': None}

    def wrap_optional(self, node, fn, allowed, required=False, max_wraps=2):
        """render node via fn() with required/optional parentheses; spans include directly wrapping parens"""
        k = 0
        if required:
            k = 1
        if allowed:
            while k < max_wraps and self.rnd.random() < self.parens:
                k += 1
        starts = []
        for _ in range(k):
            starts.append(self.emit('('))
        fn()
        inner = self.spans[id(node)]
        ends = []
        for _ in range(k):
            self.emit(')')
            ends.append(self.pos)
        if k >= 1:
            bare = (inner['start'], inner['end'])
            # innermost pair = starts[-1] .. ends[0]; outermost = starts[0] .. ends[-1]
            self.spans[id(node)] = {'start': starts[-1], 'end': ends[0], 'wraps': k,
                                    'outer': (starts[0], ends[-1]), 'bare': bare, 'inner': None}

    # -- set expressions
    def setexpr(self, node, paren_ok=True, required=False):
        i = node[0]
        if i in SET_BINARY:
            self.wrap_optional(node, lambda: self._set_binary(node), allowed=paren_ok, required=required, max_wraps=3)
        else:
            self._set_other(node)

    def _set_binary(self, node):
        i = node[0]
        lvl = SET_LEVEL[i]
        kids = node[2]
        start = None
        for idx, c in enumerate(kids):
            if idx > 0:
                self.emit(self.tok[i])
            need = False
            if c[0] in SET_BINARY:
                cl = SET_LEVEL[c[0]]
                if idx == 0:
                    need = cl < lvl or (i == 'DECART' and c[0] == 'DECART')
                else:
                    need = cl <= lvl
            self.setexpr(c, required=need)
            if idx == 0:
                sp = self.spans[id(c)]
                start = sp.get('outer', (sp['start'], sp['end']))[0]
        sp = self.spans[id(kids[-1])]
        end = sp.get('outer', (sp['start'], sp['end']))[1]
        self.record(node, start, end)

    def _outer(self, node):
        sp = self.spans[id(node)]
        return sp.get('outer', (sp['start'], sp['end']))

    def _set_other(self, node):
        i, d, kids = node
        if i in ('ID_LOCAL', 'ID_GLOBAL', 'ID_FUNCTION', 'ID_PREDICATE', 'ID_RADICAL'):
            s = self.emit(self.name(node))
            self.record(node, s, self.pos)
        elif i == 'LIT_INTEGER':
            s = self.emit(str(d))
            self.record(node, s, self.pos)
        elif i in ('LIT_INTSET', 'LIT_EMPTYSET'):
            s = self.emit(self.tok[i])
            self.record(node, s, self.pos)
        elif i in ('CARD', 'BOOL', 'DEBOOL', 'REDUCE', 'BIGPR', 'SMALLPR'):
            word = self.tok[i] + (','.join(str(x) for x in d) if i in ('BIGPR', 'SMALLPR') else '')
            s = self.emit(word)
            self.emit('(')
            self.setexpr(kids[0])
            self.emit(')')
            self.record(node, s, self.pos)
        elif i == 'BOOLEAN':
            s = self.emit(self.tok[i])
            if kids[0][0] == 'BOOLEAN' and self.rnd.random() >= self.parens:
                self._set_other(kids[0])
            else:
                self.emit('(')
                self.setexpr(kids[0])
                self.emit(')')
            self.record(node, s, self.pos)
        elif i == 'FILTER':
            s = self.emit(self.tok[i] + ','.join(str(x) for x in d))
            self.emit('[')
            for idx, c in enumerate(kids[:-1]):
                if idx:
                    self.emit(',')
                self.setexpr(c)
            self.emit(']')
            self.emit('(')
            self.setexpr(kids[-1])
            self.emit(')')
            self.record(node, s, self.pos)
        elif i == 'NT_TUPLE' or i == 'NT_TUPLE_DECL':
            s = self.emit('(')
            for idx, c in enumerate(kids):
                if idx:
                    self.emit(',')
                self.setexpr(c)
            self.emit(')')
            self.record(node, s, self.pos)
        elif i == 'NT_ENUMERATION':
            s = self.emit('{')
            for idx, c in enumerate(kids):
                if idx:
                    self.emit(',')
                self.setexpr(c)
            self.emit('}')
            self.record(node, s, self.pos)
        elif i == 'NT_FUNC_CALL':
            s = self.emit(kids[0][1])
            self.record(kids[0], s, self.pos)
            self.emit('[')
            for idx, c in enumerate(kids[1:]):
                if idx:
                    self.emit(',')
                self.setexpr(c)
            self.emit(']')
            self.record(node, s, self.pos)
        elif i == 'NT_DECLARATIVE_EXPR':
            short = kids[0][0] == 'ID_LOCAL' and self.rnd.random() < self.short_decl
            if short:
                s = self.emit('{')
            else:
                s = self.emit(self.tok['DECLARATIVE'])
                self.emit('{')
            self.setexpr(kids[0])
            self.emit(self.tok['IN'])
            self.setexpr(kids[1])
            self.emit('|')
            self.logic(kids[2], 'top')
            self.emit('}')
            self.record(node, s, self.pos)
        elif i in ('NT_RECURSIVE_FULL', 'NT_RECURSIVE_SHORT'):
            s = self.emit(self.tok['RECURSIVE'])
            self.emit('{')
            self.setexpr(kids[0])
            self.emit(self.tok['ASSIGN'])
            self.setexpr(kids[1])
            self.emit('|')
            if i == 'NT_RECURSIVE_FULL':
                self.logic(kids[2], 'top')
                self.emit('|')
                self.setexpr(kids[3])
            else:
                self.setexpr(kids[2])
            self.emit('}')
            self.record(node, s, self.pos)
        elif i == 'NT_IMPERATIVE_EXPR':
            s = self.emit(self.tok['IMPERATIVE'])
            self.emit('{')
            self.setexpr(kids[0])
            self.emit('|')
            for idx, c in enumerate(kids[1:]):
                if idx:
                    self.emit(';')
                self.logic(c, 'top')
            self.emit('}')
            self.record(node, s, self.pos)
        else:
            raise ValueError('cannot render set node ' + i)

    # -- logic
    def logic(self, node, where):
        """where: 'top' (grammar symbol logic: no parentheses allowed around the whole formula),
        'operand' (logic_all: binary/predicate may be wrapped once), 'nobinary' (logic_no_binary: a binary must be
        wrapped, a predicate may be)"""
        i = node[0]
        if i in LOGIC_BINARY:
            self.wrap_optional(node, lambda: self._logic_binary(node), allowed=(where != 'top'),
                               required=(where == 'nobinary'), max_wraps=1)
        elif i in PREDICATES:
            self.wrap_optional(node, lambda: self._predicate(node), allowed=(where != 'top'), max_wraps=1)
        elif i in ('ITERATE', 'ASSIGN'):
            self._predicate(node)
        elif i == 'NOT':
            s = self.emit(self.tok['NOT'])
            self.logic(node[2][0], 'nobinary')
            self.record(node, s, self._outer(node[2][0])[1])
        elif i in ('FORALL', 'EXISTS'):
            s = self.emit(self.tok[i])
            self.declaration(node[2][0])
            self.emit(self.tok['IN'])
            self.setexpr(node[2][1])
            pred = node[2][2]
            # the predicate may touch the domain when it starts with a bracket (or, in MATH, with a one-symbol operator)
            tight = (pred[0] in LOGIC_BINARY or (self.tok is MATH and pred[0] in ('NOT', 'FORALL', 'EXISTS'))) and self.ws > 0 and self.rnd.random() < 0.3
            if not tight and not self.space():
                self.space(force=True)
            self.logic(pred, 'nobinary')
            self.record(node, s, self._outer(node[2][2])[1])
        elif i == 'NT_FUNC_CALL':
            self._set_other(node)
        else:
            raise ValueError('cannot render logic node ' + i)

    def declaration(self, node):
        if node[0] == 'NT_ENUM_DECL':
            start = None
            for idx, c in enumerate(node[2]):
                if idx:
                    self.emit(',')
                self.setexpr(c)
                if idx == 0:
                    start = self.spans[id(c)]['start']
            self.record(node, start, self.spans[id(node[2][-1])]['end'])
        else:
            self.setexpr(node)

    def _predicate(self, node):
        self.setexpr(node[2][0])
        self.emit(self.tok[node[0]])
        self.setexpr(node[2][1])
        self.record(node, self._outer(node[2][0])[0], self._outer(node[2][1])[1])

    def _logic_binary(self, node):
        i = node[0]
        lvl = LOGIC_LEVEL[i]
        left, right = node[2]
        need_l = left[0] in LOGIC_BINARY and LOGIC_LEVEL[left[0]] < lvl
        need_r = right[0] in LOGIC_BINARY and LOGIC_LEVEL[right[0]] <= lvl
        self._logic_operand(left, need_l)
        self.emit(self.tok[i])
        self._logic_operand(right, need_r)
        self.record(node, self._outer(left)[0], self._outer(right)[1])

    def _logic_operand(self, node, required):
        i = node[0]
        if i in LOGIC_BINARY:
            self.wrap_optional(node, lambda: self._logic_binary(node), allowed=True, required=required, max_wraps=1)
        else:
            self.logic(node, 'operand')

    # -- top level
    def expression(self, node):
        i, d, kids = node
        if i in ('PUNC_DEFINE', 'PUNC_STRUCT'):
            s = self.emit(kids[0][1])
            self.record(kids[0], s, self.pos)
            self.emit(self.tok[i])
            if len(kids) > 1:
                self.no_declaration(kids[1])
                end = self._outer(kids[1])[1]
            else:
                end = self.pos
            self.record(node, s, end)
        else:
            self.no_declaration(node)
        return self.text()

    def no_declaration(self, node):
        if node[0] == 'NT_FUNC_DEFINITION':
            s = self.emit('[')
            args = node[2][0]
            astart = None
            for idx, a in enumerate(args[2]):
                if idx:
                    self.emit(',')
                ns = self.emit(self.name(a[2][0]))
                self.record(a[2][0], ns, self.pos)
                if idx == 0:
                    astart = ns
                self.emit(self.tok['IN'])
                self.setexpr(a[2][1])
                self.record(a, ns, self._outer(a[2][1])[1])
            self.record(args, astart, self.spans[id(args[2][-1])]['end'])
            self.emit(']')
            self.space()
            self.logic_or_set(node[2][1])
            self.record(node, s, self._outer(node[2][1])[1])
        else:
            self.logic_or_set(node)

    def logic_or_set(self, node):
        if is_logic(node):
            self.logic(node, 'top')
        else:
            self.setexpr(node)


def render(node, syntax, rnd=None, **style):
    r = Renderer(syntax, rnd, **style)
    text = r.expression(node)
    return text, r.spans


# ---------------------------------------------------------------------------------------------------
# syntactic random generation
# ---------------------------------------------------------------------------------------------------

GLOBALS = ['X1', 'X2', 'X11', 'C1', 'S1', 'S2', 'D1', 'D2', 'D10', 'T1', 'A1', 'N1', 'Dx', 'Z1']
FUNCS = ['F1', 'F2', 'F10']
PREDS = ['P1', 'P2']
RADICALS = ['R1', 'R2']
LOCALS_ASCII = ['a', 'b', 'c', 'x', 'y', 'z', 'ab', 'x1', '_t', 'w_2', 'k', 'n', 'carda', 'pr', 'dd']
LOCALS_GREEK = ['α', 'β', 'ξ', 'σ1', 'aα', 'ω', 'ς', 'πx']


class SynGen:
    def __init__(self, rnd, greek=True, max_int=40):
        self.rnd = rnd
        self.locals = LOCALS_ASCII + (LOCALS_GREEK if greek else [])
        self.max_int = max_int

    def local(self):
        return N('ID_LOCAL', self.rnd.choice(self.locals))

    def integer(self):
        r = self.rnd.random()
        if r < 0.7:
            return N('LIT_INTEGER', self.rnd.randint(0, self.max_int))
        if r < 0.9:
            return N('LIT_INTEGER', self.rnd.choice([100, 999, 32767, 32768, 65535, 65536, 70000, 1000000, 2147483647]))
        return N('LIT_INTEGER', self.rnd.choice([0, 1, 2, 10]))

    def leaf(self):
        r = self.rnd.random()
        if r < 0.35:
            return N('ID_GLOBAL', self.rnd.choice(GLOBALS))
        if r < 0.65:
            return self.local()
        if r < 0.8:
            return self.integer()
        if r < 0.86:
            return N('LIT_INTSET')
        if r < 0.92:
            return N('LIT_EMPTYSET')
        if r < 0.95:
            return N('ID_RADICAL', self.rnd.choice(RADICALS))
        if r < 0.98:
            return N('ID_FUNCTION', self.rnd.choice(FUNCS))
        return N('ID_PREDICATE', self.rnd.choice(PREDS))

    def indices(self):
        k = self.rnd.choice([1, 1, 2, 2, 3])
        return [self.rnd.randint(1, 4) if self.rnd.random() < 0.9 else self.rnd.randint(5, 12) for _ in range(k)]

    def variable(self, depth=2):
        if depth <= 0 or self.rnd.random() < 0.7:
            return self.local()
        return N('NT_TUPLE_DECL', None, [self.variable(depth - 1) for _ in range(self.rnd.choice([2, 2, 3]))])

    def declaration(self):
        if self.rnd.random() < 0.7:
            return self.variable()
        return N('NT_ENUM_DECL', None, [self.variable(1) for _ in range(self.rnd.choice([2, 2, 3]))])

    def setexpr(self, depth):
        rnd = self.rnd
        if depth <= 0 or rnd.random() < 0.18:
            return self.leaf()
        r = rnd.random()
        d = depth - 1
        if r < 0.30:
            op = rnd.choice(SET_BINARY)
            if op == 'DECART':
                n = rnd.choice([2, 2, 3, 4])
                return N('DECART', None, [self.setexpr(d) for _ in range(n)])
            return N(op, None, [self.setexpr(d), self.setexpr(d)])
        if r < 0.40:
            op = rnd.choice(TEXT_FUNCS)
            data = self.indices() if op in ('BIGPR', 'SMALLPR') else None
            return N(op, data, [self.setexpr(d)])
        if r < 0.47:
            return N('BOOLEAN', None, [self.setexpr(d)])
        if r < 0.54:
            return N('NT_TUPLE', None, [self.setexpr(d) for _ in range(rnd.choice([2, 2, 3]))])
        if r < 0.61:
            return N('NT_ENUMERATION', None, [self.setexpr(d) for _ in range(rnd.choice([1, 2, 3]))])
        if r < 0.67:
            idx = self.indices()
            nparams = rnd.choice([1, len(idx)])
            return N('FILTER', idx, [self.setexpr(d) for _ in range(nparams)] + [self.setexpr(d)])
        if r < 0.74:
            return N('NT_FUNC_CALL', None, [N('ID_FUNCTION', rnd.choice(FUNCS))] + [self.setexpr(d) for _ in range(rnd.choice([1, 2, 3]))])
        if r < 0.83:
            return N('NT_DECLARATIVE_EXPR', None, [self.variable(), self.setexpr(d), self.logic(d)])
        if r < 0.89:
            if rnd.random() < 0.5:
                return N('NT_RECURSIVE_FULL', None, [self.variable(), self.setexpr(d), self.logic(d), self.setexpr(d)])
            return N('NT_RECURSIVE_SHORT', None, [self.variable(), self.setexpr(d), self.setexpr(d)])
        if r < 0.96:
            blocks = []
            for _ in range(rnd.choice([1, 2, 3])):
                b = rnd.random()
                if b < 0.4:
                    blocks.append(N('ITERATE', None, [self.variable(), self.setexpr(d)]))
                elif b < 0.7:
                    blocks.append(N('ASSIGN', None, [self.variable(), self.setexpr(d)]))
                else:
                    blocks.append(self.logic(d))
            return N('NT_IMPERATIVE_EXPR', None, [self.setexpr(d)] + blocks)
        return self.leaf()

    def logic(self, depth):
        rnd = self.rnd
        d = depth - 1
        r = rnd.random()
        if depth <= 0 or r < 0.35:
            return N(rnd.choice(PREDICATES), None, [self.setexpr(max(d, 0)), self.setexpr(max(d, 0))])
        if r < 0.60:
            return N(rnd.choice(LOGIC_BINARY), None, [self.logic(d), self.logic(d)])
        if r < 0.72:
            return N('NOT', None, [self.logic(d)])
        if r < 0.92:
            return N(rnd.choice(['FORALL', 'EXISTS']), None, [self.declaration(), self.setexpr(d), self.logic(d)])
        return N('NT_FUNC_CALL', None, [N('ID_PREDICATE', rnd.choice(PREDS))] + [self.setexpr(d) for _ in range(rnd.choice([1, 2]))])

    def expression(self, depth):
        rnd = self.rnd
        r = rnd.random()
        body = self.logic(depth) if rnd.random() < 0.5 else self.setexpr(depth)
        if r < 0.12:
            args = [N('NT_ARG_DECL', None, [self.local(), self.setexpr(1)]) for _ in range(rnd.choice([1, 2, 3]))]
            body = N('NT_FUNC_DEFINITION', None, [N('NT_ARGUMENTS', None, args), body])
        if r < 0.04 or 0.12 <= r < 0.2:
            name = rnd.choice([N('ID_GLOBAL', rnd.choice(GLOBALS)), N('ID_FUNCTION', rnd.choice(FUNCS)), N('ID_PREDICATE', rnd.choice(PREDS))])
            kind = rnd.choice(['PUNC_DEFINE', 'PUNC_DEFINE', 'PUNC_STRUCT'])
            if kind == 'PUNC_DEFINE' and rnd.random() < 0.15:
                return N('PUNC_DEFINE', None, [name])
            return N(kind, None, [name, body])
        return body


def has_greek(node):
    if node[0] == 'ID_LOCAL' and any(ch in GREEK for ch in node[1]):
        return True
    return any(has_greek(c) for c in node[2])


def normalize_product(node):
    """the grammar flattens an unparenthesised product in FIRST position; abstract trees never contain
    DECART as first child of DECART unless it was parenthesised - both are representable, nothing to do"""
    return node
